/-
  C13 helper, part 8: the obligations of the builder skeletons, stated role by role.

  `ArgsInRange canon E t e tm`: the explicit ranges — AMF-UE-NGAP-ID in 0..2^40−1, RAN-UE-NGAP-ID in 0..2^32−1, PDU session
  ids in 0..255 (lists of 1..256 of them), the announced PLMN of 3 octets, an IPv4 text `net.ParseIP(..).To4()` accepts,
  a non-empty RAN node name, a gNB id of 22..32 bits in ⌈n/8⌉ octets (3 or 4 whole octets as HANDOVER REQUIRED's target
  id, 5 octets together with the cell id), any NAS-PDU.
  `explicitOK t o` (static, decided by the kernel over the builder table): the obligation `o` sits at a position whose type
  and constraints are exactly what the role's range promises. `explicit_sound`: then `ArgsInRange` discharges it.
  The remaining obligations (`genericOK`: caller-supplied ngapType values, strings and integers of the AMF-side builders,
  the 5G-S-TMSI text whose decoding is an external) stay hypotheses: "the value conforms to the type at its position".
-/
import Stgutg.Proofs.BuildersRange

namespace Stgutg.Proofs.BuildersRoles
open Stgutg Stgutg.Aper Stgutg.Builders Stgutg.Model.Convert
open Stgutg.Proofs.BuildersOk Stgutg.Proofs.Builders Stgutg.Proofs.BuildersTm Stgutg.Proofs.BuildersRange

/-- the unused bits of the last octet are clear -/
def Canonical (bytes : Bytes) (len : Nat) : Prop := bitsToBytes ((bytesToBits bytes).take len) = bytes

/-- an INTEGER position constrained to exactly `0..ub`, no extension marker -/
def intPos (ub : Int) (ty : Ty) (p : Params) : Bool :=
  ty == .int && p.valueLB == some 0 && p.valueUB == some ub && !p.valueExt

/-- sizes `a..b` are all allowed by the constraint: a root `lb..ub` that contains them -/
def sizesOK (a b : Nat) (p : Params) : Bool :=
  match p.sizeLB, p.sizeUB with
  | some l, some u => decide (0 ≤ l) && decide (l ≤ (a : Int)) && decide ((b : Int) ≤ u)
  | _, _ => false

theorem sizesOK_sound (a b n : Nat) (p : Params) (h : sizesOK a b p = true) (h1 : a ≤ n) (h2 : n ≤ b) : sizeOKn n p = true := by
  unfold sizesOK at h
  unfold sizeOKn Spec.X691.sizeConstraint
  cases hl : p.sizeLB with
  | none => simp [hl] at h
  | some l =>
    cases hu : p.sizeUB with
    | none => simp [hl, hu] at h
    | some u =>
      simp only [hl, hu, Bool.and_eq_true, decide_eq_true_eq] at h
      have h3 : ¬ (l < 0 ∨ u < l) := by omega
      have h4 : (n : Int) ≥ l ∧ (n : Int) ≤ u := by omega
      simp [h3, h4]

/-- a size constraint `SIZE(1..ub, ...)`: every non-empty string is allowed (beyond `ub` as an extension) -/
def nonEmptyOK (p : Params) : Bool :=
  p.sizeLB == some 1 && p.sizeExt && (match p.sizeUB with | some u => decide (1 ≤ u) | none => false)

theorem nonEmptyOK_sound (n : Nat) (p : Params) (h : nonEmptyOK p = true) (h1 : 1 ≤ n) : sizeOKn n p = true := by
  unfold nonEmptyOK at h
  unfold sizeOKn Spec.X691.sizeConstraint
  cases hu : p.sizeUB with
  | none => simp [hu] at h
  | some u =>
    simp only [hu, Bool.and_eq_true, beq_iff_eq, decide_eq_true_eq] at h
    obtain ⟨⟨hl, he⟩, hu1⟩ := h
    rw [hl, he]
    simp only
    have h3 : ¬ ((1 : Int) < 0 ∨ u < 1) := by omega
    rw [if_neg h3]
    by_cases h4 : (n : Int) ≥ 1 ∧ (n : Int) ≤ u
    · rw [if_pos h4]; rfl
    · have h5 : (n : Int) > u := by omega
      rw [if_neg h4, if_pos ⟨trivial, h5⟩]; rfl

/-- the obligation is one of the explicit kinds, at a position with the constraints its role promises -/
def explicitOK (t : Template) : Obl → Bool
  | .hole f ty p _ h =>
    decide (0 < f) &&
    (match h with
     | .plmn => ty == .octs && sizesOK 3 3 p
     | .arg i =>
       (match roleAt t i with
        | .amf => intPos (2 ^ 40 - 1) ty p
        | .ran => intPos (2 ^ 32 - 1) ty p
        | .psi => intPos 255 ty p
        | _ => false)
     | .argOcts i => roleAt t i == .nas && ty == .octs && sizeFree p
     | .ip4 i => roleAt t i == .ip && ty == .bits && sizesOK 32 32 p
     | .bits8 i => roleAt t i == .gnbid && (roleIdx t .cellid).isSome && ty == .bits && sizesOK 24 32 p
     | .cell36 i j => roleAt t i == .gnbid && roleAt t j == .cellid && ty == .bits && sizesOK 36 36 p
     | .bitsLen i j => roleAt t i == .gnbid && roleAt t j == .bitlen && ty == .bits && sizesOK 22 32 p
     | .argStr i => roleAt t i == .name && ty == .str && nonEmptyOK p
     | _ => false)
  | .len i p => roleAt t i == .psilist && sizesOK 1 256 p
  | .each i (.hole f ty p _ .elem) => roleAt t i == .psilist && decide (0 < f) && intPos 255 ty p
  | _ => false

def genericRole : Role → Bool
  | .val | .str | .int | .pint | .tmsi => true
  | _ => false

/-- the obligation concerns a caller-supplied value of a role without a fixed range -/
def genericOK (t : Template) : Obl → Bool
  | .hole _ _ _ _ (.arg i) => genericRole (roleAt t i)
  | .hole _ _ _ _ (.argSlice i) => genericRole (roleAt t i)
  | .hole _ _ _ _ (.deref i) => genericRole (roleAt t i)
  | .hole _ _ _ _ (.tmsiSet i) => genericRole (roleAt t i)
  | .hole _ _ _ _ (.tmsiPtr i) => genericRole (roleAt t i)
  | .hole _ _ _ _ (.tmsiVal i) => genericRole (roleAt t i)
  | _ => false

/-- the list argument an obligation ranges over -/
def oblIndex : Obl → Option Nat
  | .len i _ => some i
  | .each i _ => some i
  | _ => none

/-- the explicit ranges of a call with arguments `e` (the announced PLMN included) that selects the skeleton `tm` -/
structure ArgsInRange (canon : Bool) (E : Ext) (t : Template) (e : BEnv) (tm : Tm) : Prop where
  plmn : e.plmn.length = 3
  amf : ∀ i, roleAt t i = .amf → ∃ n, e.arg i = .int n ∧ 0 ≤ n ∧ n < 2 ^ 40
  ran : ∀ i, roleAt t i = .ran → ∃ n, e.arg i = .int n ∧ 0 ≤ n ∧ n < 2 ^ 32
  psi : ∀ i, roleAt t i = .psi → ∃ n, e.arg i = .int n ∧ 0 ≤ n ∧ n ≤ 255
  ip : ∀ i, roleAt t i = .ip → ∃ s, e.arg i = .str s ∧ cls E .ip (.str s) = 2
  name : ∀ i, roleAt t i = .name → 1 ≤ (bytesOf (e.arg i)).length
  /-- NG SETUP REQUEST: gNB id of `n` = 22..32 bits in ⌈n/8⌉ octets -/
  gnbNgSetup : ∀ i j, roleAt t i = .gnbid → roleAt t j = .bitlen →
    22 ≤ natOf (e.arg j) ∧ natOf (e.arg j) ≤ 32 ∧ (bytesOf (e.arg i)).length = (natOf (e.arg j) + 7) / 8 ∧
    (canon = true → Canonical (bytesOf (e.arg i)) (natOf (e.arg j)))
  /-- HANDOVER REQUIRED: target gNB id of 3 or 4 whole octets, 5 octets (36 bits used) together with the cell id -/
  gnbHandover : ∀ i j, roleAt t i = .gnbid → roleAt t j = .cellid →
    (3 ≤ (bytesOf (e.arg i)).length ∧ (bytesOf (e.arg i)).length ≤ 4) ∧
    (bytesOf (e.arg i) ++ bytesOf (e.arg j)).length = 5 ∧
    (canon = true → Canonical (bytesOf (e.arg i) ++ bytesOf (e.arg j)) 36)
  /-- where the selected row ranges over the PDU session id list: 1..256 ids, each in 0..255 -/
  psilist : ∀ i, (∃ o ∈ skObls tm, oblIndex o = some i) → roleAt t i = .psilist →
    ∃ xs, e.arg i = .slice xs ∧ 1 ≤ xs.length ∧ xs.length ≤ 256 ∧ ∀ x ∈ xs, ∃ n, x = .int n ∧ 0 ≤ n ∧ n ≤ 255

theorem canonical_full (b : Bytes) : Canonical b (8 * b.length) := by
  unfold Canonical
  rw [← Proofs.Bits.bytesToBits_length, List.take_length, Proofs.Bits.bitsToBytes_bytesToBits]

theorem okV_int (env : Env) (canon : Bool) (f : Nat) (hf : 0 < f) (ub : Int) (ty : Ty) (p : Params) (hp : intPos ub ty p = true)
    (hub : ub < 2 ^ 63) (n : Int) (h0 : 0 ≤ n) (h1 : n ≤ ub) : okV env canon f ty p (.int n) = true := by
  unfold intPos at hp
  simp only [Bool.and_eq_true, beq_iff_eq, Bool.not_eq_true'] at hp
  obtain ⟨⟨⟨hty, hl⟩, hu⟩, _⟩ := hp
  subst hty
  obtain ⟨f', rfl⟩ : ∃ f', f = f' + 1 := ⟨f - 1, by omega⟩
  simp only [okV, hl, hu, Bool.and_eq_true, Bool.or_eq_true, decide_eq_true_eq]
  exact ⟨⟨⟨h0, .inl h1⟩, by omega⟩, by omega⟩

theorem okV_octs (env : Env) (canon : Bool) (f : Nat) (hf : 0 < f) (p : Params) (b : Bytes) (h : sizeOKn b.length p = true) :
    okV env canon f .octs p (.octs b) = true := by
  obtain ⟨f', rfl⟩ : ∃ f', f = f' + 1 := ⟨f - 1, by omega⟩
  simpa [okV] using h

theorem okV_str (env : Env) (canon : Bool) (f : Nat) (hf : 0 < f) (p : Params) (b : Bytes) (h : sizeOKn b.length p = true) :
    okV env canon f .str p (.str b) = true := by
  obtain ⟨f', rfl⟩ : ∃ f', f = f' + 1 := ⟨f - 1, by omega⟩
  simpa [okV] using h

theorem okV_bits (env : Env) (canon : Bool) (f : Nat) (hf : 0 < f) (p : Params) (b : Bytes) (n : Nat)
    (hl : b.length = (n + 7) / 8) (hc : canon = true → Canonical b n) (h : sizeOKn n p = true) :
    okV env canon f .bits p (.bits b n) = true := by
  obtain ⟨f', rfl⟩ : ∃ f', f = f' + 1 := ⟨f - 1, by omega⟩
  simp only [okV, Bool.and_eq_true, decide_eq_true_eq, Bool.or_eq_true, Bool.not_eq_true']
  refine ⟨⟨hl, ?_⟩, h⟩
  cases canon with
  | false => exact .inl rfl
  | true => exact .inr (hc rfl)

/-- what `net.ParseIP(s).To4()` accepted: four octets -/
theorem ip4_of_cls (E : Ext) (s : Bytes) (h : cls E .ip (.str s) = 2) :
    ∃ a b c d, ipAddressToNgap E s [] = .ok { bytes := [a, b, c, d], bitLength := 32 } := by
  unfold cls at h
  simp only at h
  by_cases hs : s.isEmpty = true
  · simp [hs] at h
  · simp only [hs, if_false, Bool.false_eq_true] at h
    cases h4 : first4 (to4 (E.parseIP s)) with
    | error x => simp [h4] at h
    | ok b4 =>
      have : ∃ a b c d, b4 = [a, b, c, d] := by
        unfold first4 at h4
        split at h4
        · simp only [Except.ok.injEq] at h4; exact ⟨_, _, _, _, h4.symm⟩
        · cases h4
      obtain ⟨a, b, c, d, rfl⟩ := this
      refine ⟨a, b, c, d, ?_⟩
      unfold ipAddressToNgap
      simp [hs, h4, bind, Except.bind]

theorem roleAt_of_roleIdx (t : Template) (r : Role) (j : Nat) (h : roleIdx t r = some j) : roleAt t j = r := by
  unfold roleIdx at h
  rw [List.findIdx?_eq_some_iff_getElem] at h
  obtain ⟨hj, hp, _⟩ := h
  unfold roleAt
  rw [List.getElem?_eq_getElem hj]
  simpa using hp

/-- **the explicit ranges discharge the explicit obligations** -/
theorem explicit_sound (canon : Bool) (E : Ext) (t : Template) (e : BEnv) (tm : Tm) (hr : ArgsInRange canon E t e tm)
    (o : Obl) (hmem : o ∈ skObls tm) (ho : explicitOK t o = true) : Obl.ok Gen.Ngap.schema canon E e .nil o = true := by
  cases o with
  | hole f ty p opt h =>
    simp only [explicitOK, Bool.and_eq_true, decide_eq_true_eq] at ho
    obtain ⟨hf, ho⟩ := ho
    simp only [Obl.ok, Bool.or_eq_true]
    right
    cases h with
    | plmn =>
      simp only [Bool.and_eq_true, beq_iff_eq] at ho
      obtain ⟨rfl, hs⟩ := ho
      simp only [evalHole]
      exact okV_octs _ _ _ hf _ _ (sizesOK_sound 3 3 _ p hs (by rw [hr.plmn]) (by rw [hr.plmn]))
    | arg i =>
      simp only at ho
      cases hrole : roleAt t i <;> simp only [hrole] at ho <;> try (cases ho; done)
      · obtain ⟨n, hn, h0, h1⟩ := hr.amf i hrole
        simp only [evalHole, hn]
        exact okV_int _ _ _ hf _ _ _ ho (by decide) n h0 (by omega)
      · obtain ⟨n, hn, h0, h1⟩ := hr.ran i hrole
        simp only [evalHole, hn]
        exact okV_int _ _ _ hf _ _ _ ho (by decide) n h0 (by omega)
      · obtain ⟨n, hn, h0, h1⟩ := hr.psi i hrole
        simp only [evalHole, hn]
        exact okV_int _ _ _ hf _ _ _ ho (by decide) n h0 h1
    | argOcts i =>
      simp only [Bool.and_eq_true, beq_iff_eq] at ho
      obtain ⟨⟨_, rfl⟩, hs⟩ := ho
      simp only [evalHole]
      exact okV_octs _ _ _ hf _ _ (sizeOKn_of_sizeFree _ _ hs)
    | ip4 i =>
      simp only [Bool.and_eq_true, beq_iff_eq] at ho
      obtain ⟨⟨hrole, rfl⟩, hs⟩ := ho
      obtain ⟨s, hs', hcls⟩ := hr.ip i hrole
      obtain ⟨a, b, c, d, hip⟩ := ip4_of_cls E s hcls
      simp only [evalHole, hs', bytesOf, hip]
      refine okV_bits _ _ _ hf _ _ _ rfl (fun _ => ?_) (sizesOK_sound 32 32 _ p hs (by omega) (by omega))
      exact canonical_full [a, b, c, d]
    | bits8 i =>
      simp only [Bool.and_eq_true, beq_iff_eq] at ho
      obtain ⟨⟨⟨hrole, hcell⟩, rfl⟩, hs⟩ := ho
      obtain ⟨j, hj⟩ := Option.isSome_iff_exists.mp hcell
      obtain ⟨⟨h3, h4⟩, _, _⟩ := hr.gnbHandover i j hrole (roleAt_of_roleIdx t _ j hj)
      simp only [evalHole]
      exact okV_bits _ _ _ hf _ _ _ (by omega) (fun _ => canonical_full _) (sizesOK_sound 24 32 _ p hs (by omega) (by omega))
    | cell36 i j =>
      simp only [Bool.and_eq_true, beq_iff_eq] at ho
      obtain ⟨⟨⟨hri, hrj⟩, rfl⟩, hs⟩ := ho
      obtain ⟨_, h5, hc⟩ := hr.gnbHandover i j hri hrj
      simp only [evalHole]
      exact okV_bits _ _ _ hf _ _ _ (by rw [h5]) hc (sizesOK_sound 36 36 _ p hs (by omega) (by omega))
    | bitsLen i j =>
      simp only [Bool.and_eq_true, beq_iff_eq] at ho
      obtain ⟨⟨⟨hri, hrj⟩, rfl⟩, hs⟩ := ho
      obtain ⟨h22, h32, hl, hc⟩ := hr.gnbNgSetup i j hri hrj
      simp only [evalHole]
      exact okV_bits _ _ _ hf _ _ _ hl hc (sizesOK_sound 22 32 _ p hs h22 h32)
    | argStr i =>
      simp only [Bool.and_eq_true, beq_iff_eq] at ho
      obtain ⟨⟨hrole, rfl⟩, hs⟩ := ho
      simp only [evalHole]
      exact okV_str _ _ _ hf _ _ (nonEmptyOK_sound _ p hs (hr.name i hrole))
    | _ => simp at ho
  | len i p =>
    simp only [explicitOK, Bool.and_eq_true, beq_iff_eq] at ho
    obtain ⟨xs, hxs, h1, h256, _⟩ := hr.psilist i ⟨_, hmem, rfl⟩ ho.1
    simp only [Obl.ok, hxs, listOf, Bool.and_eq_true, decide_eq_true_eq]
    exact ⟨sizesOK_sound 1 256 _ p ho.2 h1 h256, by omega⟩
  | each i o' =>
    cases o' with
    | hole f ty p opt h =>
      cases h <;> try (simp [explicitOK] at ho; done)
      simp only [explicitOK, Bool.and_eq_true, beq_iff_eq, decide_eq_true_eq] at ho
      obtain ⟨⟨hrole, hf⟩, hp⟩ := ho
      obtain ⟨xs, hxs, _, _, hall⟩ := hr.psilist i ⟨_, hmem, rfl⟩ hrole
      simp only [Obl.ok, hxs, listOf, List.all_eq_true, Bool.or_eq_true]
      intro x hx
      obtain ⟨n, rfl, h0, h1⟩ := hall x hx
      right
      simp only [evalHole]
      exact okV_int _ _ _ hf _ _ _ hp (by decide) n h0 h1
    | _ => simp [explicitOK] at ho

end Stgutg.Proofs.BuildersRoles
