/-
  C14 (cost): erasing the counters of the instrumented decoder (`Model/AperDecCost.lean`) gives exactly the plain
  decoder model (`Model/AperDec.lean`).
-/
import Stgutg.Model.AperDecCost

namespace Stgutg.Proofs.AperCost
open Stgutg Stgutg.Aper

theorem D_bind_apply {α β : Type} (m : D α) (f : α → D β) (r : Rd) :
    (m >>= f) r = match m r with | .ok (a, r') => f a r' | .error e => .error e := rfl

theorem DC_bind_apply {α β : Type} (m : DC α) (f : α → DC β) (r : Rd) :
    (m >>= f) r = match m r with
      | (.ok (a, r'), c) => ((f a r').1, c.add (f a r').2)
      | (.error e, c) => (.error e, c) := rfl

@[simp] theorem erase_bind {α β : Type} (m : DC α) (f : α → DC β) :
    DC.erase (m >>= f) = (DC.erase m >>= fun a => DC.erase (f a)) := by
  funext r
  simp only [DC.erase, DC_bind_apply, D_bind_apply]
  rcases h : m r with ⟨res, c⟩
  cases res with
  | error e => rfl
  | ok x => obtain ⟨a, r'⟩ := x; rfl

@[simp] theorem erase_pure {α : Type} (a : α) : DC.erase (pure a : DC α) = (pure a : D α) := rfl
@[simp] theorem erase_lift {α : Type} (m : D α) : DC.erase (DC.lift m) = m := rfl
@[simp] theorem erase_fail {α : Type} (e : Err) : DC.erase (DC.fail e : DC α) = (D.fail e : D α) := rfl
@[simp] theorem erase_get : DC.erase DC.get = D.get := rfl

theorem D_pure_bind {α β : Type} (a : α) (f : α → D β) : ((pure a : D α) >>= f) = f a := by
  funext r; rfl

theorem D_bind_pure_unit {β : Type} (k : D β) : ((pure () : D Unit) >>= fun _ => k) = k := by
  funext r; rfl

@[simp] theorem erase_chargeAlloc_bind {β : Type} (n : Nat) (k : Unit → DC β) :
    DC.erase (DC.chargeAlloc n >>= k) = DC.erase (k ()) := by
  funext r
  simp only [DC.erase, DC_bind_apply, DC.chargeAlloc]

@[simp] theorem erase_chargeAlloc (n : Nat) : DC.erase (DC.chargeAlloc n) = (pure () : D Unit) := rfl

theorem D_bind_pure {α : Type} (m : D α) : (m >>= fun a => (pure a : D α)) = m := by
  funext r
  rw [D_bind_apply]
  cases m r with
  | error e => rfl
  | ok x => obtain ⟨a, r'⟩ := x; rfl

@[simp] theorem erase_takeOctetsC (n : Nat) : DC.erase (takeOctetsC n) = takeOctets n := by
  unfold takeOctetsC
  simp only [erase_bind, erase_lift, erase_pure]
  exact D_bind_pure _

@[simp] theorem erase_getBitsCopyC (n : Nat) : DC.erase (getBitsCopyC n) = getBits n := by
  unfold getBitsCopyC
  simp only [erase_bind, erase_lift, erase_pure]
  exact D_bind_pure _

theorem bind_congr {α β : Type} (m : D α) (f g : α → D β) (h : ∀ a, f a = g a) : (m >>= f) = (m >>= g) := by
  have : f = g := funext h
  rw [this]

theorem erase_ite {α : Type} (c : Prop) [Decidable c] (a b : DC α) :
    DC.erase (if c then a else b) = if c then DC.erase a else DC.erase b := by
  split <;> rfl

theorem erase_parseOctetStringLoopC (sr lb : Int) : ∀ (fuel : Nat) (acc : Bytes),
    DC.erase (parseOctetStringLoopC sr lb fuel acc) = parseOctetStringLoop sr lb fuel acc := by
  intro fuel
  induction fuel with
  | zero => intro acc; rfl
  | succ fuel ih =>
    intro acc
    unfold parseOctetStringLoopC parseOctetStringLoop
    simp only [erase_bind, erase_lift]
    apply bind_congr
    intro x
    obtain ⟨len, rep⟩ := x
    dsimp only
    rw [erase_ite]
    split
    · rfl
    · simp only [erase_bind, erase_lift, erase_takeOctetsC]
      apply bind_congr; intro _
      apply bind_congr; intro b
      rw [erase_ite, ih]
      rfl

theorem erase_parseOctetStringC (ext : Bool) (lbP ubP : Option Int) :
    DC.erase (parseOctetStringC ext lbP ubP) = parseOctetString ext lbP ubP := by
  unfold parseOctetStringC parseOctetString
  generalize sizeBounds ext lbP ubP = sb
  obtain ⟨lb, ub, sr⟩ := sb
  dsimp only
  rw [erase_ite]
  split
  · rw [erase_ite]
    split
    · simp only [erase_bind, erase_lift, erase_takeOctetsC]
    · simp only [erase_bind, erase_getBitsCopyC, erase_pure]
  · simp only [erase_bind, erase_get]
    apply bind_congr; intro r
    exact erase_parseOctetStringLoopC _ _ _ _

theorem erase_parseBitStringLoopC (sr lb : Int) : ∀ (fuel : Nat) (accB : Bytes) (accL : Nat),
    DC.erase (parseBitStringLoopC sr lb fuel accB accL) = parseBitStringLoop sr lb fuel accB accL := by
  intro fuel
  induction fuel with
  | zero => intro accB accL; rfl
  | succ fuel ih =>
    intro accB accL
    unfold parseBitStringLoopC parseBitStringLoop
    simp only [erase_bind, erase_lift]
    apply bind_congr
    intro x
    obtain ⟨len, rep⟩ := x
    dsimp only
    rw [erase_ite]
    split
    · rfl
    · simp only [erase_bind, erase_lift, erase_get]
      apply bind_congr; intro _
      apply bind_congr; intro r
      rw [erase_ite]
      split
      · rfl
      · simp only [erase_bind, erase_getBitsCopyC]
        apply bind_congr; intro b
        rw [erase_ite, ih]
        rfl

theorem erase_parseBitStringC (ext : Bool) (lbP ubP : Option Int) :
    DC.erase (parseBitStringC ext lbP ubP) = parseBitString ext lbP ubP := by
  unfold parseBitStringC parseBitString
  generalize sizeBounds ext lbP ubP = sb
  obtain ⟨lb, ub, sr⟩ := sb
  dsimp only
  rw [erase_ite]
  split
  · rw [erase_ite]
    split
    · simp only [erase_bind, erase_lift, erase_get]
      apply bind_congr; intro _
      apply bind_congr; intro r
      rw [erase_ite]
      split
      · rfl
      · simp only [erase_bind, erase_getBitsCopyC, erase_pure]
    · simp only [erase_bind, erase_getBitsCopyC, erase_pure]
  · simp only [erase_bind, erase_get]
    apply bind_congr; intro r
    exact erase_parseBitStringLoopC _ _ _ _ _

theorem erase_openTypeOctetsC : ∀ (fuel : Nat) (acc : Bytes),
    DC.erase (openTypeOctetsC fuel acc) = openTypeOctets fuel acc := by
  intro fuel
  induction fuel with
  | zero => intro acc; rfl
  | succ fuel ih =>
    intro acc
    unfold openTypeOctetsC openTypeOctets
    simp only [erase_bind, erase_lift]
    apply bind_congr
    intro x
    obtain ⟨len, rep⟩ := x
    dsimp only
    rw [erase_ite]
    split
    · rfl
    · simp only [erase_bind, erase_lift, erase_takeOctetsC]
      apply bind_congr; intro _
      apply bind_congr; intro b
      rw [erase_ite, ih]
      split
      · rfl
      · simp only [erase_bind, erase_lift, erase_pure]

theorem erase_decElemsC (f : DC Val) : ∀ n, DC.erase (decElemsC f n) = decElems (DC.erase f) n := by
  intro n
  induction n with
  | zero => rfl
  | succ n ih =>
    unfold decElemsC decElems
    simp only [erase_bind, erase_pure, ih]

theorem erase_decSeqFieldsC (f : Ty → Params → DC Val) (rfv : Ty → Val → Res Int) (allFields : List Field) :
    ∀ (fields : List Field) (i oc ob : Nat) (vals : List Val),
      DC.erase (decSeqFieldsC f rfv allFields i oc ob fields vals) =
        decSeqFields (fun ty p => DC.erase (f ty p)) rfv allFields i oc ob fields vals := by
  intro fields
  induction fields with
  | nil => intro i oc ob vals; rfl
  | cons fd rest ih =>
    intro i oc ob vals
    unfold decSeqFieldsC decSeqFields
    dsimp only
    split
    · exact ih _ _ _ _
    · cases resolveRef rfv allFields vals i fd with
      | error e => rfl
      | ok fp =>
        dsimp only
        simp only [erase_bind]
        apply bind_congr; intro v
        exact ih _ _ _ _

theorem erase_decLeafC (ty : Ty) (params : Params) (se ve : Bool) :
    DC.erase (decLeafC ty params se ve) = decLeaf ty params se ve := by
  unfold decLeafC decLeaf
  cases ty <;> simp only [erase_bind, erase_lift, erase_pure, erase_fail, erase_parseBitStringC, erase_parseOctetStringC]

theorem erase_sub {α : Type} (x : Res (α × Rd) × Cost) :
    DC.erase (DC.sub x) = fun r => match x.1 with | .error e => .error e | .ok (v, _) => .ok (v, r) := by
  funext r
  unfold DC.erase DC.sub
  cases x.1 with
  | error e => rfl
  | ok y => rfl

theorem erase_decStructC (f : Ty → Params → DC Val) (rfv : Ty → Val → Res Int) (zero : Ty → Val)
    (sd : StructDef) (params : Params) (ve : Bool) :
    DC.erase (decStructC f rfv zero sd params ve) =
      decStruct (fun ty p => DC.erase (f ty p)) rfv zero sd params ve := by
  unfold decStructC decStruct
  dsimp only
  simp only [erase_bind, erase_lift]
  apply bind_congr; intro optBits
  rw [erase_ite]
  split
  · rw [erase_ite]
    split
    · cases params.refValue with
      | none => rfl
      | some rv =>
        dsimp only
        cases findAlt sd.fields rv with
        | none => rfl
        | some present =>
          dsimp only
          cases sd.fields[present]? with
          | none => rfl
          | some fd =>
            dsimp only
            simp only [erase_bind, erase_get, erase_openTypeOctetsC]
            apply bind_congr; intro r0
            apply bind_congr; intro octs
            funext r
            rw [D_bind_apply, erase_sub]
            unfold DC.erase
            dsimp only
            cases (f fd.ty fd.params (Rd.ofBytes octs)).1 with
            | error e => rfl
            | ok y => rfl
    · simp only [erase_bind, erase_lift]
      apply bind_congr; intro present
      rw [erase_ite]
      split
      · rfl
      · rw [erase_ite]
        split
        · rfl
        · cases sd.fields[present]? with
          | none => rfl
          | some fd =>
            dsimp only
            simp only [erase_bind, erase_pure]
  · simp only [erase_bind, erase_pure, erase_decSeqFieldsC]

theorem tick_fst {β : Type} (k : DC β) (r : Rd) : (DC.tickThen k r).1 = (k r).1 := rfl

theorem erase_sliceBody (env : Env) (fuel : Nat) (t : Ty) (params : Params)
    (ih : DC.erase (decFieldC env fuel t (stripSize params)) = decField env fuel t (stripSize params)) :
    DC.erase (do let (sizeExt, _) ← DC.lift (extBits params true)
                 let n ← DC.lift (sliceCount params sizeExt)
                 DC.chargeAlloc n
                 let vs ← decElemsC (decFieldC env fuel t (stripSize params)) n
                 pure (.slice vs) : DC Val) =
      (do let (sizeExt, _) ← extBits params true
          let n ← sliceCount params sizeExt
          let vs ← decElems (decField env fuel t (stripSize params)) n
          pure (.slice vs) : D Val) := by
  simp only [erase_bind, erase_lift, erase_chargeAlloc, D_pure_bind, erase_decElemsC, erase_pure, ih]

theorem erase_structBody (env : Env) (fuel : Nat) (sd : StructDef) (params : Params)
    (ihf : (fun ty p => DC.erase (decFieldC env fuel ty p)) = decField env fuel) :
    DC.erase (do let (_, valueExt) ← DC.lift (extBits params false)
                 decStructC (decFieldC env fuel) (refFieldValue env fuel) (zeroVal env fuel) sd params valueExt : DC Val) =
      (do let (_, valueExt) ← extBits params false
          decStruct (decField env fuel) (refFieldValue env fuel) (zeroVal env fuel) sd params valueExt : D Val) := by
  simp only [erase_bind, erase_lift, erase_decStructC, ihf]

theorem erase_leafBody (ty : Ty) (params : Params) :
    DC.erase (do let (sizeExt, valueExt) ← DC.lift (extBits params false)
                 decLeafC ty params sizeExt valueExt : DC Val) =
      (do let (sizeExt, valueExt) ← extBits params false
          decLeaf ty params sizeExt valueExt : D Val) := by
  simp only [erase_bind, erase_lift, erase_decLeafC]

theorem erase_leafCase (env : Env) (fuel : Nat) (ty : Ty) (params : Params) (r0 : Rd)
    (h1 : ∀ t, ty ≠ .ptr t) (h2 : ∀ t, ty ≠ .slice t) (h3 : ∀ id, ty ≠ .struct id) :
    (decFieldC env (fuel + 1) ty params r0).1 = decField env (fuel + 1) ty params r0 := by
  unfold decFieldC decField DC.tickThen
  dsimp only
  by_cases h0 : r0.len = 0
  · simp only [h0, if_true]
  · simp only [h0, if_false]
    have := congrFun (erase_leafBody ty params) r0
    unfold DC.erase at this
    cases ty with
    | ptr t => exact absurd rfl (h1 t)
    | slice t => exact absurd rfl (h2 t)
    | struct id => exact absurd rfl (h3 id)
    | _ => exact this

/-- **projection lemma**: the instrumented `parseField` without its counters is `parseField` -/
theorem erase_decFieldC (env : Env) : ∀ (fuel : Nat) (ty : Ty) (params : Params),
    DC.erase (decFieldC env fuel ty params) = decField env fuel ty params := by
  intro fuel
  induction fuel with
  | zero => intro ty params; rfl
  | succ fuel ih =>
    intro ty params
    have ihf : (fun ty p => DC.erase (decFieldC env fuel ty p)) = decField env fuel := by
      funext ty p; exact ih ty p
    funext r0
    unfold DC.erase
    cases ty with
    | ptr t =>
      unfold decFieldC decField DC.tickThen
      dsimp only
      by_cases h0 : r0.len = 0
      · simp only [h0, if_true]
      · simp only [h0, if_false]
        have := congrFun (erase_bind (decFieldC env fuel t params) (fun v => (pure (.ptr v) : DC Val))) r0
        unfold DC.erase at this
        rw [this]
        have e : (fun r => (decFieldC env fuel t params r).1) = decField env fuel t params := ih t params
        rw [e]; rfl
    | slice t =>
      unfold decFieldC decField DC.tickThen
      dsimp only
      by_cases h0 : r0.len = 0
      · simp only [h0, if_true]
      · simp only [h0, if_false]
        have := congrFun (erase_sliceBody env fuel t params (ih t (stripSize params))) r0
        unfold DC.erase at this
        exact this
    | struct id =>
      unfold decFieldC decField DC.tickThen
      dsimp only
      by_cases h0 : r0.len = 0
      · simp only [h0, if_true]
      · simp only [h0, if_false]
        cases env[id]? with
        | none => rfl
        | some sd =>
          have := congrFun (erase_structBody env fuel sd params ihf) r0
          unfold DC.erase at this
          exact this
    | int => exact erase_leafCase env fuel .int params r0 (by simp) (by simp) (by simp)
    | enum => exact erase_leafCase env fuel .enum params r0 (by simp) (by simp) (by simp)
    | bits => exact erase_leafCase env fuel .bits params r0 (by simp) (by simp) (by simp)
    | octs => exact erase_leafCase env fuel .octs params r0 (by simp) (by simp) (by simp)
    | str => exact erase_leafCase env fuel .str params r0 (by simp) (by simp) (by simp)
    | bool => exact erase_leafCase env fuel .bool params r0 (by simp) (by simp) (by simp)
    | oid => exact erase_leafCase env fuel .oid params r0 (by simp) (by simp) (by simp)

/-- **projection lemma** for the entry point -/
theorem unmarshalCost_fst (env : Env) (fuel : Nat) (ty : Ty) (params : Params) (b : Bytes) :
    (unmarshalCost env fuel ty params b).1 = unmarshal env fuel ty params b := by
  unfold unmarshalCost unmarshal
  have h := congrFun (erase_decFieldC env fuel ty params) (Rd.ofBytes b)
  unfold DC.erase at h
  rw [← h]
  rcases decFieldC env fuel ty params (Rd.ofBytes b) with ⟨res, c⟩
  cases res with
  | error e => rfl
  | ok x => obtain ⟨v, r⟩ := x; rfl

end Stgutg.Proofs.AperCost
