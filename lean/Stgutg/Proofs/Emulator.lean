/-
  Helper lemmas for C01 / C02 (Props/C01.lean, Props/C02.lean): the outcome monad of Model/Emulator.lean, the two loops of
  test mode, the NAS COUNTs of the specification's UE over a run of protected messages, one protected uplink message as
  the reference AMF (Spec/Amf.lean) sees it, and the wrappers of packet.go as `Shaped` builder outputs (C13's vocabulary).
-/
import Stgutg.Model.Emulator
import Stgutg.Spec.Amf
import Stgutg.Props.C03
import Stgutg.Props.C04
import Stgutg.Props.C05
import Stgutg.Props.C06
import Stgutg.Props.C12
import Stgutg.Props.C13
import Stgutg.Props.C16

namespace Stgutg.Proofs.Emulator
open Stgutg Stgutg.Model.Emulator Stgutg.Model.NasProtect Stgutg.Proofs.NasProtect Stgutg.Spec.NasSecurity

/-! ### the outcome monad -/

theorem bind_apply {α β : Type} (m : M α) (f : α → M β) (w : World) :
    (m >>= f) w = match m w with
      | (w', .ok a) => f a w'
      | (w', .error e) => (w', .error e) := rfl

theorem pure_apply {α : Type} (a : α) (w : World) : (pure a : M α) w = (w, .ok a) := rfl

theorem stop_apply {α : Type} (s : Stop) (w : World) : (stop s : M α) w = (w, .error s) := rfl

/-! ### the loops of test mode -/

/-- what no procedure after `CreateUE` / `RegisterUE` ever assigns: the identity part of the context -/
def ident (u : Ue) : Model.UeIdentity.RanUeContext × Int := (u.ctx, u.amfUeNgapId)

/-- `for i := 0; i < n; i++ { proc(ueList[i]) }`: when the loop completes, every index it used was inside the list, the list
    has the same length, and every UE still has the SUPI, RAN-UE-NGAP-ID, credentials and AMF-UE-NGAP-ID it had before -/
theorem forUes_ok (f : Ue → M UeSec) : ∀ (n i : Nat) (ues : List Ue) (w w' : World) (ues' : List Ue),
    forUes f n i ues w = (w', .ok ues') → ues'.map ident = ues.map ident ∧ (n = 0 ∨ i + n ≤ ues.length)
  | 0, _, ues, w, w', ues', h => by
    simp only [forUes, pure_apply] at h
    injection h with _ h2
    injection h2 with h2
    subst h2
    exact ⟨rfl, .inl rfl⟩
  | n + 1, i, ues, w, w', ues', h => by
    unfold forUes at h
    cases hi : ues[i]? with
    | none =>
      rw [hi] at h
      simp only [stop_apply] at h
      injection h with _ h2
      exact absurd h2 (by simp)
    | some ue =>
      rw [hi] at h
      simp only [bind_apply] at h
      cases hf : f ue w with
      | mk w1 r =>
        rw [hf] at h
        cases r with
        | error e =>
          simp only at h
          injection h with _ h2
          exact absurd h2 (by simp)
        | ok sec =>
          simp only at h
          obtain ⟨h1, h2⟩ := forUes_ok f n (i + 1) _ w1 w' ues' h
          have hil : i < ues.length := (List.getElem?_eq_some_iff.mp hi).1
          have hie : ues[i] = ue := (List.getElem?_eq_some_iff.mp hi).2
          refine ⟨?_, .inr ?_⟩
          · rw [h1, List.map_set]
            have : ident { ue with sec := sec } = ident ue := rfl
            rw [this, ← hie]
            apply List.ext_getElem (by simp)
            intro k hk1 hk2
            by_cases hki : i = k
            · subst hki; simp
            · rw [List.getElem_set_ne hki]
          · rcases h2 with h0 | hle
            · omega
            · rw [List.length_set] at hle; omega

/-- the registration loop appends one UE per iteration, created by `CreateUE(imsi, i, …)` with `i` the loop counter: when it
    completes the list has grown by `n` and the new contexts are those of indices `i, i+1, …` in order -/
theorem registerLoop_ok (P : Prims) (E : Model.Convert.Ext) (cfg : Cfg) : ∀ (n i : Nat) (ues : List Ue) (w w' : World) (ues' : List Ue),
    registerLoop P E cfg n i ues w = (w', .ok ues') →
      ues'.map (·.ctx) = ues.map (·.ctx) ++ (List.range' i n).map fun k : Nat => (createUE cfg (k : Int)).ctx
  | 0, _, ues, w, w', ues', h => by
    simp only [registerLoop, pure_apply] at h
    injection h with _ h2
    injection h2 with h2
    subst h2
    simp
  | n + 1, i, ues, w, w', ues', h => by
    unfold registerLoop at h
    simp only [bind_apply] at h
    cases hf : registerUE P E cfg (createUE cfg i) w with
    | mk w1 r =>
      rw [hf] at h
      cases r with
      | error e =>
        simp only at h
        injection h with _ h2
        exact absurd h2 (by simp)
      | ok res =>
        simp only at h
        have := registerLoop_ok P E cfg n (i + 1) _ w1 w' ues' h
        rw [this, List.range'_succ]
        simp

/-! ### NAS COUNT of the specification's UE over a run of protected messages -/

/-- the conformant UE uses `c, c+1, …` (mod 2^24) for a run of protected messages that take no new context into use -/
theorem ueRun_counts (P : Prims) (ctx : SecCtx) (sends : List UlSend) (c : Nat) (hc : c < 2 ^ 24)
    (h : ∀ m ∈ sends, m.ctxAvail = true ∧ m.newCtx = false) :
    (ueRun P ctx ⟨c⟩ sends).2.map (·.1) = (List.range sends.length).map fun k => some ((c + k) % 2 ^ 24) := by
  induction sends generalizing c with
  | nil => rfl
  | cons m ms ih =>
    have hm := h m (List.mem_cons_self ..)
    have hms : ∀ x ∈ ms, x.ctxAvail = true ∧ x.newCtx = false := fun x hx => h x (List.mem_cons_of_mem _ hx)
    have hc' : (c + 1) % countMod < 2 ^ 24 := by unfold countMod; omega
    simp only [ueRun, ueProtect, hm.1, hm.2, Bool.not_true, Bool.false_eq_true, if_false, List.map_cons, List.length_cons]
    rw [ih _ hc' hms, List.range_succ_eq_map, List.map_cons, List.map_map]
    congr 1
    · simp; omega
    · apply List.map_congr_left
      intro k _
      simp only [Function.comp, countMod]
      congr 1
      omega

/-- TS 24.501 4.4.3.1: from the last accepted COUNT `c` and the sequence number of COUNT `c + 1` the receiver estimates `c + 1` -/
theorem estimate_next (c : Nat) (h : c + 1 < 2 ^ 24) : estimate c (sqnOf (c + 1)) = c + 1 := by
  unfold estimate sqnOf overflowOf
  simp only
  split <;> omega

/-! ### one protected uplink message, as the reference AMF sees it -/

/-- the judge's NAS-security clause accepts what the specification's receiver accepts under the expected, fresh COUNT -/
theorem receiveUl_of_receive (P : Prims) (u : Spec.Amf.UeSt) (strict : Bool) (allowed : List Nat) (msg plain : Bytes) (c : Nat)
    (hall : allowed.contains (Spec.Amf.byteAt msg 1) = true)
    (hcount : Spec.Amf.expectedCount u strict (Spec.Amf.byteAt msg 1) (Spec.Amf.byteAt msg 6) = some c)
    (hfresh : Spec.Amf.fresh u (Spec.Amf.byteAt msg 1) c = true)
    (hrecv : receive P (Spec.Amf.ctxOf u) uplink c msg = some plain) :
    Spec.Amf.receiveUl P u strict allowed msg = .ok (plain, c) := by
  simp at hall
  simp [Spec.Amf.receiveUl, hall, hcount, hfresh, hrecv]

/-- the UE context holds the keys the network derived and the algorithms it selected (and they are supported ones) -/
def InStep (sec : UeSec) (u : Spec.Amf.UeSt) : Prop := ctxOf sec = Spec.Amf.ctxOf u ∧ Supported sec

/-- one protected `EncodeNasPduWithSecurity` call seen from the network: octet 2 is the header type, octet 7 the sequence
    number of the COUNT in force, the specification's receiver recovers the plain message under that COUNT with the
    network's keys, the context stays in step and the UL NAS COUNT advances by one -/
theorem protected_step (P : Prims) (hP : PrimsOk P) (sec : UeSec) (u : Spec.Amf.UeSt) (hin : InStep sec u)
    (plain : Bytes) (sht : UInt8) (newCtx : Bool) (hsht : protectedType sht.toNat = true) :
    ∃ out, (Model.NasProtect.encodeNasPduWithSecurity P sec plain sht true newCtx).2 = .ok out ∧
      Spec.Amf.byteAt out 1 = sht.toNat ∧
      Spec.Amf.byteAt out 6 = (if newCtx then 0 else cval sec.ulCount) % 256 ∧
      receive P (Spec.Amf.ctxOf u) uplink (if newCtx then 0 else cval sec.ulCount) out = some plain ∧
      InStep (Model.NasProtect.encodeNasPduWithSecurity P sec plain sht true newCtx).1 u ∧
      cval (Model.NasProtect.encodeNasPduWithSecurity P sec plain sht true newCtx).1.ulCount
        = ((if newCtx then 0 else cval sec.ulCount) + 1) % 2 ^ 24 := by
  obtain ⟨hctx, hs⟩ := hin
  let op : UlOp := { plain := plain, epd := 0x7e, sht := sht, ctxAvail := true, newCtx := newCtx }
  obtain ⟨body, mac, -, hm, he, hc⟩ := Props.C06.step_protects P sec op hs rfl
  obtain ⟨-, out, ho, -, hr⟩ := Props.C06.bytes_entry P hP sec plain sht newCtx hs hsht
  obtain ⟨-, -, -, -, -, h5, h6⟩ := ul_step_full P sec op hs (fun _ => hsht)
  have hout : out = [op.epd, op.sht] ++ mac ++ [UInt8.ofNat ((if op.newCtx then 0 else cval sec.ulCount) % 256)] ++ body := by
    have : (Model.NasProtect.encodeNasPduWithSecurity P sec plain sht true newCtx).2 = (nasEncode P sec op).2 := rfl
    rw [this, he] at ho
    exact (Except.ok.inj ho).symm
  obtain ⟨m0, m1, m2, m3, hmac⟩ := nia_length P hP _ _ _ _ _ _ mac hm
  refine ⟨out, ho, ?_, ?_, by rw [← hctx]; exact hr, ⟨by rw [← hctx]; exact h5, h6⟩, hc⟩
  · rw [hout]; simp [Spec.Amf.byteAt, op]
  · rw [hout, hmac]
    simp only [Spec.Amf.byteAt, op, List.cons_append, List.nil_append, List.getElem?_cons_succ, List.getElem?_cons_zero,
      UInt8.toNat_ofNat']
    omega

/-! ### what the reference AMF decodes is the PDU the builder made (C04 + C03) -/

set_option maxRecDepth 1000000 in
/-- table fact: the regenerated schema already carries the TS 38.413 constraints the reference AMF's encoder is run under
    (`Spec.Ts38413.patchSchema` changes nothing; cf. `Props.C03.tags_are_ts38413`) -/
theorem patchSchema_eq : Spec.Ts38413.patchSchema Gen.Ngap.schema = Gen.Ngap.schema := by decide +kernel

theorem fuel_eq : Builders.fuel = Spec.Amf.ngapFuel := by unfold Builders.fuel; rfl

/-- **the C04 / C03 obligations discharged**: for a PDU value that is within its constraints (`conf`, C04's decidable
    predicate: integers in range, strings and open-type contents below 16384, CHOICEs well-formed) and regular (C03's:
    BIT STRING octet counts, int64 integers), the octets `ngap.Encoder` returns are decoded by the reference AMF — library
    decoder inverts the encoder (`C04_roundtrip_pdu`) and the X.691 specification encoder reproduces the octets
    (`C03_encode_canonical`) — to exactly that value. -/
theorem amf_sees_built_pdu (v : Aper.Val) (b : Bytes)
    (hc : Props.C04.ConfPdu Spec.Amf.ngapFuel v)
    (hr : Proofs.AperSpec.regular Gen.Ngap.schema Spec.Amf.ngapFuel (.struct Gen.Ngap.pduId) false v = true)
    (h : Builders.encodePdu v = .ok b) : Spec.Amf.decodeNgap b = some v := by
  unfold Builders.encodePdu at h
  rw [fuel_eq] at h
  unfold Spec.Amf.decodeNgap Spec.Amf.specSchema
  rw [Props.C04.C04_roundtrip_pdu _ v b hc h, patchSchema_eq]
  have e := Props.C03.C03_encode_canonical _ v b hr h
  simp [e]

/-! ### the wrappers of packet.go that only build and encode -/

open Builders in
theorem mem_allTable_hand {t : Template} (h : t ∈ handTable) : t ∈ Proofs.Builders.allTable :=
  List.mem_append_left _ (List.mem_append_left _ h)

end Stgutg.Proofs.Emulator
