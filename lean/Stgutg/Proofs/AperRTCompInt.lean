/-
  C04, composite round trip — INTEGER extension values: a value above the upper bound of an extensible
  INTEGER is written as extension bit 1 + the unconstrained form (length octet, minimal two's complement);
  the decoder reads it back. (Complements `RT_int`, which covers the values inside the root.)
-/
import Stgutg.Proofs.AperRT

namespace Stgutg.Proofs.AperRTComp
open Stgutg Stgutg.Aper Stgutg.Proofs.Bits Stgutg.Proofs.AperRT

theorem shift7_eq (n : Nat) : n >>> 7 = (2 * n) >>> 8 := by
  rw [Nat.shiftRight_eq_div_pow, Nat.shiftRight_eq_div_pow]
  have e7 : (2 : Nat) ^ 7 = 128 := by decide
  have e8 : (2 : Nat) ^ 8 = 256 := by decide
  rw [e7, e8]; omega

theorem pow256 (k : Nat) : (256 : Nat) ^ k = 2 ^ (8 * k) := by
  have : (256 : Nat) = 2 ^ 8 := by decide
  rw [this, ← Nat.pow_mul]

/-- the octet count of the unconstrained form leaves the sign bit clear -/
theorem octetCount7_facts (n : Nat) (h : n < 2 ^ 63) :
    1 ≤ octetCount 9 (n >>> 7) ∧ octetCount 9 (n >>> 7) ≤ 8 ∧ n < 2 ^ (8 * octetCount 9 (n >>> 7) - 1) := by
  rw [shift7_eq]
  have h2 : 2 * n < 2 ^ 64 := by
    have : (2 : Nat) ^ 64 = 2 * 2 ^ 63 := by decide
    omega
  have hb := octetCount_bound 9 (2 * n) (by
    rw [pow256]
    exact Nat.lt_of_lt_of_le h2 (Nat.pow_le_pow_right (by decide) (by decide)))
  have hle := octetCount_le 9 (2 * n) 8 (by decide) (by rw [pow256]; exact h2)
  obtain ⟨hlt, _, h1⟩ := hb
  refine ⟨h1, hle, ?_⟩
  rw [pow256] at hlt
  generalize octetCount 9 ((2 * n) >>> 8) = k at *
  have : 2 ^ (8 * k) = 2 * 2 ^ (8 * k - 1) := by
    have e : 8 * k = (8 * k - 1) + 1 := by omega
    conv => lhs; rw [e, Nat.pow_succ]
    omega
  omega

theorem and_two_pow_of_lt (n j : Nat) (h : n < 2 ^ j) : n &&& 2 ^ j = 0 := by
  apply Nat.eq_of_testBit_eq
  intro i
  simp only [Nat.testBit_and, Nat.testBit_two_pow, Nat.zero_testBit]
  by_cases hij : j = i
  · subst hij; simp [Nat.testBit_lt_two_pow h]
  · simp [hij]

theorem bytesToBits_single (k : Nat) (hk : k < 256) : bytesToBits [UInt8.ofNat k] = natToBits 8 k := by
  unfold bytesToBits
  simp only [List.flatMap_cons, List.flatMap_nil, List.append_nil]
  unfold byteBits
  have : (UInt8.ofNat k).toNat = k := by
    simp [UInt8.toNat_ofNat']; omega
  rw [this]

theorem RT_intVal {b2 : Bits} {pos2 : Nat} {m : D Int} {a : Int} (hp : RT b2 pos2 m a) :
    RT b2 pos2 (m >>= fun k => (pure (Val.int k) : D Val)) (.int a) := by
  have := RT_bind (f := fun k => (pure (Val.int k) : D Val)) hp (RT_pure _ (Val.int a))
  rw [List.append_nil] at this
  exact this

/-- INTEGER extension value (above the root's upper bound; non-negative root, value below 2^63) -/
theorem RT_int_ext (pos : Nat) (v : Int) (params : Params) (bits : Bits) (lb ub : Int)
    (hlb : params.valueLB = some lb) (hub : params.valueUB = some ub) (hext : params.valueExt = true)
    (hv1 : lb ≤ v) (hv2 : ub < v) (hlb0 : 0 ≤ lb) (hv63 : v < 2 ^ 63) (hs : params.sizeExt = false)
    (h : appendInteger pos v params.valueExt params.valueLB params.valueUB = .ok bits) :
    RT bits pos (leafDec .int params) (.int v) := by
  unfold appendInteger at h
  rw [hlb, hub, hext] at h
  have hnlt : ¬ v < lb := by omega
  have hnle : ¬ v ≤ ub := by omega
  simp only [hnlt, if_false, hnle, Bool.not_true, Bool.false_eq_true] at h
  have h1 : ¬ ((-1 : Int) = 1) := by decide
  have h2 : ((-1 : Int) ≤ 0) := by decide
  have h3 : ((-1 : Int) < 0) := by decide
  have hv0 : ¬ v < 0 := by omega
  simp only [h1, if_false, h2, if_true, h3, hv0] at h
  have hn63 : v.toNat < 2 ^ 63 := by omega
  obtain ⟨hk1, hk8, hvk⟩ := octetCount7_facts v.toNat hn63
  generalize hrl : octetCount 9 (v.toNat >>> 7) = k at h hk1 hk8 hvk
  have hpow : (2 : Nat) ^ (8 * k - 1) < 2 ^ (8 * k) := Nat.pow_lt_pow_right (by decide) (by omega)
  have hbody : (v % ((2 ^ (8 * k) : Nat) : Int)).toNat = v.toNat := by
    have hvlt : v < ((2 ^ (8 * k) : Nat) : Int) := by omega
    rw [Int.emod_eq_of_lt (by omega) hvlt]
  rw [hbody] at h
  cases hp : putBitsValue v.toNat (8 * k) with
  | error e => rw [hp] at h; simp at h
  | ok b =>
    rw [hp] at h
    simp only [Except.ok.injEq] at h
    have h64 : (2 : Nat) ^ 63 < 2 ^ 64 := by decide
    have ⟨hb, hvb⟩ := putBitsValue_ok64 v.toNat (8 * k) b (by omega) (by omega) (by omega) hp
    rw [← h, List.append_assoc, List.append_assoc]
    unfold leafDec
    refine RT_bind (RT_extBits_value pos params false true hs (by simp [hext])) ?_
    dsimp only
    unfold decLeaf
    have hdec : RT (alignBits (pos + [true].length) ++ (natToBits 8 k ++ b)) (pos + [true].length)
        (parseInteger true params.valueLB params.valueUB) v := by
      unfold parseInteger
      simp only [if_true, h1, if_false, h2, h3]
      refine RT_seq (RT_align _) ?_
      have hoct := RT_takeOctets (pos + [true].length + (alignBits (pos + [true].length)).length) [UInt8.ofNat k]
      rw [bytesToBits_single k (by omega)] at hoct
      refine RT_bind hoct ?_
      have hhead : (([UInt8.ofNat k] : Bytes).headD 0).toNat = k := by
        simp [UInt8.toNat_ofNat']; omega
      simp only [hhead]
      have hk0 : ¬ k = 0 := by omega
      simp only [hk0, if_false]
      have hcomm : k * 8 = 8 * k := Nat.mul_comm _ _
      rw [hcomm, hb]
      have hraw := RT_getBitsValue (8 * k) v.toNat
        (pos + [true].length + (alignBits (pos + [true].length)).length + (natToBits 8 k).length)
        (by omega) hvb (by omega)
      have hfin := RT_bind (f := fun (raw : Nat) =>
          (if raw &&& (if 8 * k - 1 < 64 then 2 ^ (8 * k - 1) else 0) > 0 then
              pure (wrapInt64 (-(toInt64 ((((2 ^ 64 - 1 - raw) &&&
                (((if 8 * k - 1 < 64 then 2 ^ (8 * k - 1) else 0) + 2 ^ 64 - 1) % 2 ^ 64)) + 1) % 2 ^ 64))))
            else pure (wrapInt64 (toInt64 raw + 0)) : D Int)) hraw (c := v) (b2 := []) (by
          have hlt64 : 8 * k - 1 < 64 := by omega
          simp only [hlt64, if_true, and_two_pow_of_lt _ _ hvk, Nat.lt_irrefl, if_false]
          have hw : wrapInt64 (toInt64 v.toNat + 0) = v := by
            rw [toInt64_small v.toNat hn63]
            have e : ((v.toNat : Nat) : Int) + 0 = v := by omega
            rw [e]; exact wrapInt64_small v (by omega) hv63
          rw [hw]
          exact RT_pure _ _)
      rw [List.append_nil] at hfin
      exact hfin
    exact RT_intVal hdec

end Stgutg.Proofs.AperRTComp
