/-
  C01 helper: symbolic execution of the emulator model's procedures (Model/Emulator.lean) — which uplink messages they write,
  given what they read.
-/
import Stgutg.Proofs.Emulator
import Stgutg.Props.C02

namespace Stgutg.Proofs.EmulatorRun
open Stgutg Stgutg.Model.Emulator Stgutg.Builders Stgutg.Proofs.Emulator

theorem getPlmn_apply (w : World) : getPlmn w = (w, .ok w.plmn) := rfl
theorem setPlmn_apply (p : Bytes) (w : World) : setPlmn p w = ({ w with plmn := p }, .ok ()) := rfl
theorem write_apply (b : Bytes) (w : World) : write b w = ({ w with ulsRev := b :: w.ulsRev }, .ok ()) := rfl
theorem read_cons (d : Bytes) (rest : List Bytes) (w : World) (h : w.dls = d :: rest) :
    Model.Emulator.read w = ({ w with dls := rest }, .ok (d.take 2048)) := by
  unfold Model.Emulator.read; rw [h]

/-- a wrapper that returns octets: `wrapperChecked` yields them and leaves the world alone -/
theorem wrapperChecked_ok (E : Model.Convert.Ext) (wr : Wrapper) (args : List Aper.Val) (w : World) (b : Bytes)
    (h : wr.run E w.plmn args = .ok (.ok b)) : wrapperChecked E wr args w = (w, .ok b) := by
  unfold wrapperChecked wrapper
  simp only [bind_apply, getPlmn_apply, h]
  rfl

theorem wrapperUnchecked_ok (E : Model.Convert.Ext) (wr : Wrapper) (args : List Aper.Val) (w : World) (b : Bytes)
    (h : wr.run E w.plmn args = .ok (.ok b)) : wrapperUnchecked E wr args w = (w, .ok b) := by
  unfold wrapperUnchecked wrapper
  simp only [bind_apply, getPlmn_apply, h]
  rfl

/-- **`ManageNGSetup` writes the NG SETUP REQUEST and records the PLMN**, when the peer answers with a decodable message -/
theorem manageNGSetup_run (E : Model.Convert.Ext) (cfg : Cfg) (w : World) (m b1 d1 : Bytes) (rest : List Bytes) (v : Aper.Val)
    (hplmn : Model.Suci.ngSetupPlmn cfg.imsi cfg.mnc.length = .ok m)
    (hrun : Wrapper.run E .GetNGSetupRequest w.plmn [.octs cfg.gnbId, .octs m, .int cfg.bitlength, .str cfg.name] = .ok (.ok b1))
    (hdls : w.dls = d1 :: rest) (hdec : ngapDecode (d1.take 2048) = .ok v) :
    manageNGSetup E cfg w = ({ w with dls := rest, ulsRev := b1 :: w.ulsRev, plmn := m }, .ok ()) := by
  unfold manageNGSetup
  simp only [bind_apply, hplmn, orTrap, pure_apply]
  unfold wrapper
  simp only [bind_apply, getPlmn_apply, hrun, pure_apply, setPlmn_apply, checked, write_apply]
  simp only [Model.Emulator.read, hdls, hdec, checked, pure_apply]

theorem ctor_ok (L : Nas.Layout) (m : Res Nas.Msg) (b : Bytes) (h : Nas.Ctor.encodeWith L m = .ok b) (w : World) :
    ctor L m w = (w, .ok b) := by
  unfold ctor; rw [h]; rfl

/-- `EncodeNasPduWithSecurity` of the emulator on a message that `PlainNasDecode` / `PlainNasEncode` reproduce -/
theorem protect_ok (P : Prims) (ue : Ue) (pdu : Bytes) (sht : UInt8) (newCtx : Bool) (pm : Nas.PlainMsg)
    (hd : Nas.plainDecode nasCodec pdu = .ok pm) (he : Nas.plainEncode nasCodec pm = .ok pdu) (o : Bytes)
    (ho : (Model.NasProtect.encodeNasPduWithSecurity P ue.sec pdu sht true newCtx).2 = .ok o) (w : World) :
    protect P ue pdu sht newCtx w =
      (w, .ok ({ ue with sec := (Model.NasProtect.encodeNasPduWithSecurity P ue.sec pdu sht true newCtx).1 }, o)) := by
  unfold protect Model.Emulator.encodeNasPduWithSecurity
  simp only [hd, he, Bool.not_true, Bool.false_eq_true, if_false, bind_apply, ho, checked, pure_apply]

/-- the NAS security state after `RegisterUE` installed the derived keys -/
abbrev secAfterKeys (ue1 : Ue) (keys : Model.KeyDerivation.UeKeys) : Model.NasProtect.UeSec :=
  { ulCount := ue1.sec.ulCount, dlCount := ue1.sec.dlCount, cipheringAlg := ue1.sec.cipheringAlg,
    integrityAlg := ue1.sec.integrityAlg, knasEnc := keys.knasEnc, knasInt := keys.knasInt }

/-- the UE context after Security Mode Complete was protected -/
abbrev ueAfterSmc (P : Prims) (ue1 : Ue) (keys : Model.KeyDerivation.UeKeys) (amf : Int) (smc : Bytes) : Ue :=
  { ctx := ue1.ctx, amfUeNgapId := amf,
    sec := (Model.NasProtect.encodeNasPduWithSecurity P (secAfterKeys ue1 keys) smc 4 true true).1, kamf := keys.kamf }

/-- what `RegisterUE` reads from the peer and what its library calls return, for one registration -/
structure RegReads (P : Prims) (E : Model.Convert.Ext) (cfg : Cfg) (ue0 : Ue) (plmn : Bytes) (d2 d3 d4 d5 : Bytes)
    (suci nas2 b2 nas3 b3 rr smc o1 b4 b5 rc o2 b6 : Bytes) (amf : Int) (keys : Model.KeyDerivation.UeKeys)
    (ue1 : Ue) where
  hsuci : Model.Suci.encodeSuci (Model.Suci.trimImsiPrefix ue0.ctx.supi) cfg.mnc.length = .ok suci
  henc2 : Nas.Ctor.encodeWith Gen.Nas.layout_RegistrationRequest
    (Nas.Ctor.registrationRequest 1 (suciVal suci) none (some (secCapVal ue0)) none none none) = .ok nas2
  hrun2 : Wrapper.run E .GetInitialUEMessage plmn [.int ue0.ctx.ranUeNgapId, .octs nas2, .str []] = .ok (.ok b2)
  /-- DL1: a decodable DOWNLINK NAS TRANSPORT … -/
  v2 : Aper.Val
  dnt : Aper.Val
  hdec2 : ngapDecode (d2.take 2048) = .ok v2
  hdnt : initiatingAlt altDownlinkNASTransport v2 = some (some dnt)
  /-- … whose NAS-PDU `GetNasPdu` returns as a message (the UE's identity and algorithms untouched) … -/
  pm : Option Nas.PlainMsg
  hgn : ∀ w, getNasPdu P ue0 dnt w = (w, .ok (ue1, pm))
  /-- … that is an Authentication Request with these AUTN and RAND -/
  autn : Bytes
  rand : Bytes
  hauth : authParams pm = some (autn, rand)
  hkeys : Model.KeyDerivation.DeriveRESstarAndSetKey P ue1.ctx.supi ue1.ctx.cipheringAlg ue1.ctx.integrityAlg
    { amf := ue1.ctx.amf, k := ue1.ctx.k, opc := ue1.ctx.opc, op := ue1.ctx.op } autn rand
    (Model.KeyDerivation.snName cfg.mnc cfg.mcc) cfg.mnc cfg.mcc = .ok keys
  /-- the AMF-UE-NGAP-ID is the first IE of the DOWNLINK NAS TRANSPORT -/
  hamf : ((ieList dnt).bind (·[0]?) |>.bind (ieAlt altDnAMFUENGAPID) |>.bind deref |>.bind (field 0)) = some (.int amf)
  henc3 : Nas.Ctor.encodeWith Gen.Nas.layout_AuthenticationResponse (Nas.Ctor.authenticationResponse keys.resStar []) = .ok nas3
  hrun3 : Wrapper.run E .GetUplinkNASTransport plmn [.int amf, .int ue1.ctx.ranUeNgapId, .octs nas3] = .ok (.ok b3)
  /-- DL2 (Security Mode Command), DL3 (INITIAL CONTEXT SETUP REQUEST): decodable; DL4: the decoder does not trap -/
  v3 : Aper.Val
  hdec3 : ngapDecode (d3.take 2048) = .ok v3
  hencrr : Nas.Ctor.encodeWith Gen.Nas.layout_RegistrationRequest
    (Nas.Ctor.registrationRequest 1 (suciVal suci) none (some (secCapVal ue0)) (some cap5GMMVal) none none) = .ok rr
  hencsmc : Nas.Ctor.encodeWith Gen.Nas.layout_SecurityModeComplete (Nas.Ctor.securityModeComplete (some rr)) = .ok smc
  /-- `PlainNasDecode` then `PlainNasEncode` reproduce the constructors' octets (C08) -/
  pm4 : Nas.PlainMsg
  hpd4 : Nas.plainDecode nasCodec smc = .ok pm4
  hpe4 : Nas.plainEncode nasCodec pm4 = .ok smc
  ho1 : (Model.NasProtect.encodeNasPduWithSecurity P (secAfterKeys ue1 keys) smc 4 true true).2 = .ok o1
  hrun4 : Wrapper.run E .GetUplinkNASTransport plmn [.int amf, .int ue1.ctx.ranUeNgapId, .octs o1] = .ok (.ok b4)
  v4 : Aper.Val
  hdec4 : ngapDecode (d4.take 2048) = .ok v4
  hrun5 : Wrapper.run E .GetInitialContextSetupResponse plmn [.int amf, .int ue1.ctx.ranUeNgapId] = .ok (.ok b5)
  hencrc : Nas.Ctor.encodeWith Gen.Nas.layout_RegistrationComplete (Nas.Ctor.registrationComplete none) = .ok rc
  pm6 : Nas.PlainMsg
  hpd6 : Nas.plainDecode nasCodec rc = .ok pm6
  hpe6 : Nas.plainEncode nasCodec pm6 = .ok rc
  ho2 : (Model.NasProtect.encodeNasPduWithSecurity P (Model.NasProtect.encodeNasPduWithSecurity P
    (secAfterKeys ue1 keys) smc 4 true true).1 rc 2 true false).2 = .ok o2
  hrun6 : Wrapper.run E .GetUplinkNASTransport plmn [.int amf, .int ue1.ctx.ranUeNgapId, .octs o2] = .ok (.ok b6)
  hdec5 : ngapDecode (d5.take 2048) ≠ .error .panic ∧ ngapDecode (d5.take 2048) ≠ .error .hang

/-- the DOWNLINK side only: what `RegisterUE` reads from the peer's four answers, what `GetNasPdu` / `authParams` /
    `DeriveRESstarAndSetKey` make of the first one. Everything else in `RegReads` is a conclusion of the C01 theorems
    (and of C08 for the re-encoding inside `EncodeNasPduWithSecurity`: Proofs/EmulatorReencode.lean). -/
structure DlReads (P : Prims) (cfg : Cfg) (ue0 : Ue) (d2 d3 d4 d5 : Bytes) (amf : Int) (keys : Model.KeyDerivation.UeKeys)
    (ue1 : Ue) where
  v2 : Aper.Val
  dnt : Aper.Val
  hdec2 : ngapDecode (d2.take 2048) = .ok v2
  hdnt : initiatingAlt altDownlinkNASTransport v2 = some (some dnt)
  pm : Option Nas.PlainMsg
  hgn : ∀ w, getNasPdu P ue0 dnt w = (w, .ok (ue1, pm))
  autn : Bytes
  rand : Bytes
  hauth : authParams pm = some (autn, rand)
  hkeys : Model.KeyDerivation.DeriveRESstarAndSetKey P ue1.ctx.supi ue1.ctx.cipheringAlg ue1.ctx.integrityAlg
    { amf := ue1.ctx.amf, k := ue1.ctx.k, opc := ue1.ctx.opc, op := ue1.ctx.op } autn rand
    (Model.KeyDerivation.snName cfg.mnc cfg.mcc) cfg.mnc cfg.mcc = .ok keys
  hamf : ((ieList dnt).bind (·[0]?) |>.bind (ieAlt altDnAMFUENGAPID) |>.bind deref |>.bind (field 0)) = some (.int amf)
  v3 : Aper.Val
  hdec3 : ngapDecode (d3.take 2048) = .ok v3
  v4 : Aper.Val
  hdec4 : ngapDecode (d4.take 2048) = .ok v4
  hdec5 : ngapDecode (d5.take 2048) ≠ .error .panic ∧ ngapDecode (d5.take 2048) ≠ .error .hang

/-- **`RegisterUE` writes exactly the five uplink messages of the registration**, given what it reads, and returns the
    AMF-UE-NGAP-ID it read, K_AMF and the security state after the two protected messages -/
theorem registerUE_run_result (P : Prims) (E : Model.Convert.Ext) (cfg : Cfg) (ue0 : Ue) (w : World) (d2 d3 d4 d5 : Bytes)
    (rest : List Bytes) (hdls : w.dls = d2 :: d3 :: d4 :: d5 :: rest)
    (suci nas2 b2 nas3 b3 rr smc o1 b4 b5 rc o2 b6 : Bytes) (amf : Int) (keys : Model.KeyDerivation.UeKeys) (ue1 : Ue)
    (R : RegReads P E cfg ue0 w.plmn d2 d3 d4 d5 suci nas2 b2 nas3 b3 rr smc o1 b4 b5 rc o2 b6 amf keys ue1) :
    registerUE P E cfg ue0 w = ({ w with dls := rest, ulsRev := b6 :: b5 :: b4 :: b3 :: b2 :: w.ulsRev },
      .ok { amfUeNgapId := amf, kamf := keys.kamf,
            sec := (Model.NasProtect.encodeNasPduWithSecurity P (Model.NasProtect.encodeNasPduWithSecurity P
              (secAfterKeys ue1 keys) smc 4 true true).1 rc 2 true false).1 }) := by
  unfold registerUE
  have pb : ∀ {α β : Type} (a : α) (f : α → M β) (w : World), (pure a >>= f) w = f a w := fun _ _ _ => rfl
  simp only [bind_apply, pb, R.hsuci, orTrap, pure_apply, ctor_ok _ _ _ R.henc2]
  rw [wrapperChecked_ok E _ _ w b2 R.hrun2]
  simp only [write_apply, Model.Emulator.read, hdls, R.hdec2, checked, pure_apply, R.hdnt, pb, bind_apply, R.hgn, R.hauth,
    R.hkeys, R.hamf, ctor_ok _ _ _ R.henc3]
  rw [wrapperUnchecked_ok E _ _ { dls := d3 :: d4 :: d5 :: rest, ulsRev := b2 :: w.ulsRev, plmn := w.plmn, reportsRev := w.reportsRev }
    b3 R.hrun3]
  simp only [R.hdec3, checked, pure_apply, ctor_ok _ _ _ R.hencrr, ctor_ok _ _ _ R.hencsmc]
  rw [protect_ok P { ctx := ue1.ctx, amfUeNgapId := amf, sec := secAfterKeys ue1 keys, kamf := keys.kamf } smc 4 true R.pm4
    R.hpd4 R.hpe4 o1 R.ho1]
  simp only
  rw [wrapperChecked_ok E _ _ { dls := d4 :: d5 :: rest, ulsRev := b3 :: b2 :: w.ulsRev, plmn := w.plmn, reportsRev := w.reportsRev }
    b4 R.hrun4]
  simp only [R.hdec4, checked, pure_apply]
  rw [wrapperChecked_ok E _ _ { dls := d5 :: rest, ulsRev := b4 :: b3 :: b2 :: w.ulsRev, plmn := w.plmn, reportsRev := w.reportsRev }
    b5 R.hrun5]
  simp only [ctor_ok _ _ _ R.hencrc]
  rw [protect_ok P (ueAfterSmc P ue1 keys amf smc) rc 2 false R.pm6 R.hpd6 R.hpe6 o2 R.ho2]
  simp only
  rw [wrapperChecked_ok E _ _ { dls := d5 :: rest, ulsRev := b5 :: b4 :: b3 :: b2 :: w.ulsRev, plmn := w.plmn, reportsRev := w.reportsRev }
    b6 R.hrun6]
  simp only
  cases hd5 : ngapDecode (d5.take 2048) with
  | ok v => rfl
  | error e =>
    cases e with
    | error => rfl
    | panic => exact absurd hd5 R.hdec5.1
    | hang => exact absurd hd5 R.hdec5.2

theorem registerUE_run (P : Prims) (E : Model.Convert.Ext) (cfg : Cfg) (ue0 : Ue) (w : World) (d2 d3 d4 d5 : Bytes)
    (rest : List Bytes) (hdls : w.dls = d2 :: d3 :: d4 :: d5 :: rest)
    (suci nas2 b2 nas3 b3 rr smc o1 b4 b5 rc o2 b6 : Bytes) (amf : Int) (keys : Model.KeyDerivation.UeKeys) (ue1 : Ue)
    (R : RegReads P E cfg ue0 w.plmn d2 d3 d4 d5 suci nas2 b2 nas3 b3 rr smc o1 b4 b5 rc o2 b6 amf keys ue1) :
    ∃ r, registerUE P E cfg ue0 w = ({ w with dls := rest, ulsRev := b6 :: b5 :: b4 :: b3 :: b2 :: w.ulsRev }, .ok r) :=
  ⟨_, registerUE_run_result P E cfg ue0 w d2 d3 d4 d5 rest hdls suci nas2 b2 nas3 b3 rr smc o1 b4 b5 rc o2 b6 amf keys ue1 R⟩

/-- **test mode with one registration and nothing after it** (`Test_ue_registation` = 1, no PDU session, no de-registration):
    the emulator writes the NG SETUP REQUEST and the five messages of the registration, reads the five downlink messages, and
    completes -/
theorem emulate_run (P : Prims) (E : Model.Convert.Ext) (cfg : Cfg) (d1 d2 d3 d4 d5 : Bytes)
    (hreg : cfg.reg = 1) (hpdu : cfg.pdu = 0) (hdereg : cfg.dereg = 0)
    (m b1 : Bytes) (v1 : Aper.Val) (hplmn : Model.Suci.ngSetupPlmn cfg.imsi cfg.mnc.length = .ok m)
    (hrun1 : Wrapper.run E .GetNGSetupRequest [] [.octs cfg.gnbId, .octs m, .int cfg.bitlength, .str cfg.name] = .ok (.ok b1))
    (hdec1 : ngapDecode (d1.take 2048) = .ok v1)
    (suci nas2 b2 nas3 b3 rr smc o1 b4 b5 rc o2 b6 : Bytes) (amf : Int) (keys : Model.KeyDerivation.UeKeys) (ue1 : Ue)
    (R : RegReads P E cfg (createUE cfg 0) m d2 d3 d4 d5 suci nas2 b2 nas3 b3 rr smc o1 b4 b5 rc o2 b6 amf keys ue1) :
    (emulate P E cfg [d1, d2, d3, d4, d5]).uls = [b1, b2, b3, b4, b5, b6] ∧
    (emulate P E cfg [d1, d2, d3, d4, d5]).outcome = .completed := by
  have hnum := Props.C02.genNumbers_eq (countsOf cfg)
  have hregs : (genRegistrations (countsOf cfg)).toNat = 1 := by rw [hnum.2]; simp [countsOf, hreg]
  have hest : (genNumbers (countsOf cfg)).establish.toNat = 0 := by
    rw [hnum.1]; simp [numbers, countsOf, hreg, hpdu, Model.FailStop.goMin]
  have hsvc : (genNumbers (countsOf cfg)).service.toNat = 0 := by
    rw [hnum.1]; simp only [numbers, countsOf, hreg, hpdu, Model.FailStop.goMin]
    split <;> simp <;> omega
  have hrel : (genNumbers (countsOf cfg)).release.toNat = 0 := by
    rw [hnum.1]; simp only [numbers, countsOf, hreg, hpdu, Model.FailStop.goMin]
    split <;> simp <;> omega
  have hder : (genNumbers (countsOf cfg)).deregister.toNat = 0 := by
    rw [hnum.1]; simp [numbers, countsOf, hreg, hdereg, Model.FailStop.goMin]
  have hsetup := manageNGSetup_run E cfg { dls := [d1, d2, d3, d4, d5] } m b1 d1 [d2, d3, d4, d5] v1 hplmn hrun1 rfl hdec1
  obtain ⟨r, hregrun⟩ := registerUE_run P E cfg (createUE cfg 0)
    { dls := [d2, d3, d4, d5], ulsRev := [b1], plmn := m } d2 d3 d4 d5 [] rfl
    suci nas2 b2 nas3 b3 rr smc o1 b4 b5 rc o2 b6 amf keys ue1 R
  have hrunall : testMode P E cfg { dls := [d1, d2, d3, d4, d5] } =
      ({ dls := [], ulsRev := [b6, b5, b4, b3, b2, b1], plmn := m }, .ok ()) := by
    unfold testMode
    simp only [bind_apply, hsetup, hregs, hest, hsvc, hrel, hder]
    have : registerLoop P E cfg 1 0 [] { dls := [d2, d3, d4, d5], ulsRev := [b1], plmn := m } =
        ({ dls := [], ulsRev := [b6, b5, b4, b3, b2, b1], plmn := m },
          .ok ([] ++ [{ createUE cfg 0 with amfUeNgapId := r.amfUeNgapId, kamf := r.kamf, sec := r.sec }])) := by
      simp only [registerLoop, bind_apply]
      have h0 : registerUE P E cfg (createUE cfg ((0 : Nat) : Int)) { dls := [d2, d3, d4, d5], ulsRev := [b1], plmn := m } = _ := hregrun
      rw [h0]
      rfl
    simp only [this, forUes, pure_apply]
  unfold emulate
  rw [hrunall]
  exact ⟨rfl, rfl⟩

end Stgutg.Proofs.EmulatorRun
