/-
  C03 helper lemmas, part 2: composite types. The decidable schema predicate `specOK` / `tyParamsOK`, the value predicate
  `regular`, and `encode_eq_spec`: for every schema passing `specOK`, whatever bits `encField` produces for a regular
  value are the bits `Spec.X691.encode` prescribes (SEQUENCE with OPTIONAL bitmap and open-type components, SEQUENCE OF,
  CHOICE, open types; recursion on the fuel both encoders share). `nonEmptyEnc_sound`: an open type's content is never
  empty. Corollaries `encode_refuses`, `marshal_eq_spec`, `marshal_refuses`.
-/
import Stgutg.Proofs.AperSpec

namespace Stgutg.Proofs.AperSpec
open Stgutg Stgutg.Aper Stgutg.Proofs.Bits
open Stgutg.Spec.X691 (bitsFor octetsFor pad constrainedWholeNumber lengthDeterminant lengthAndItems twosComplement octetsForSigned
  integer enumerated sizeConstraint bitString octetString)

/-! ## What must hold of the schema (decidable, closed for `Gen.Ngap.schema` by the kernel) -/

def intOK (p : Params) : Bool := intOK' p.valueLB p.valueUB
def enumOK (p : Params) : Bool := enumOK' p.valueLB
def strOK (p : Params) : Bool := strOK' p.sizeLB p.sizeUB

/-- SEQUENCE OF: bounds both absent, or a lower bound in 0..65535 and (if present) an upper bound ≥ it;
    an upper bound of 64K or more (treated as absent by the library) must not be extensible -/
def sliceOK (p : Params) : Bool :=
  match p.sizeLB, p.sizeUB with
  | none, none => true
  | none, some _ => false
  | some l, none => decide (0 ≤ l) && decide (l < 65536)
  | some l, some u => decide (0 ≤ l) && decide (l ≤ u) && decide (l < 65536) && (decide (u < 65536) || !p.sizeExt)

/-- a sufficient condition for "whatever the model emits for this type is at least one bit"
    (an open type must not have an empty content: X.691 11.2 then wants one zero octet, the library writes none) -/
def nonEmptyEnc (env : Env) : Nat → Ty → Params → Bool
  | 0, _, _ => false
  | k + 1, ty, p =>
    match ty with
    | .ptr t => nonEmptyEnc env k t p
    | .bool => true
    | .oid => true
    | .int => p.valueExt || (match p.valueLB, p.valueUB with | some l, some u => decide (l < u) | _, _ => true)
    | .enum => p.valueExt || (match p.valueLB, p.valueUB with | some l, some u => decide (l < u) | _, _ => true)
    | .bits => (match p.sizeLB, p.sizeUB with | some _, some u => decide (0 < u) | _, _ => true)
    | .octs => (match p.sizeLB, p.sizeUB with | some _, some u => decide (0 < u) | _, _ => true)
    | .str => (match p.sizeLB, p.sizeUB with | some _, some u => decide (0 < u) | _, _ => true)
    | .slice _ => (match p.sizeLB, p.sizeUB with | some l, some u => decide (l < u) && decide (l < 65536) | _, _ => false)
    | .struct id =>
      p.valueExt ||
      match env[id]? with
      | none => true
      | some sd =>
        if isChoice sd then true
        else sd.fields.any (fun fd => fd.params.optional || nonEmptyEnc env k fd.ty fd.params)

/-- a struct type used with parameters `p`: a CHOICE that is not an open type carries `valueUB = #alternatives − 1`
    with at least two alternatives (or no `valueUB` at all: then the library refuses every value);
    the alternatives of an open type never have an empty encoding -/
def structOK (env : Env) (id : Nat) (p : Params) : Bool :=
  -- nothing to check for a struct type used without `openType` and without `valueUB` (the common case;
  -- tested first so that the kernel does not look the type up)
  if !p.openType && p.valueUB.isNone then true else
  match env[id]? with
  | none => true
  | some sd =>
    if isChoice sd then
      if p.openType then sd.fields.tail.all (fun fd => nonEmptyEnc env 6 fd.ty fd.params)
      else
        match p.valueUB with
        | none => true
        | some ub => ub + 1 == ((sd.fields.length - 1 : Nat) : Int) && decide (3 ≤ sd.fields.length)
    else true

def tyParamsOK (env : Env) : Ty → Params → Bool
  | .int, p => intOK p
  | .enum, p => enumOK p
  | .bits, p => strOK p
  | .octs, p => strOK p
  | .str, p => strOK p
  | .bool, _ => true
  | .oid, _ => true
  | .ptr t, p => tyParamsOK env t p
  | .slice t, p => sliceOK p && tyParamsOK env t (stripSizeE p)
  | .struct id, p => structOK env id p

/-- every field of every struct type is declared with parameters the proof can handle -/
def specOK (env : Env) : Bool :=
  env.all (fun sd => sd.fields.all (fun fd => tyParamsOK env fd.ty fd.params))

/-! ## What must hold of the value (its Go representation is regular) -/

def isNilV : Val → Bool
  | .nil => true
  | _ => false

/-- `regular env fuel ty ot v` (`ot`: the type is used as an open type; kept for the shape of the recursion):
    * INTEGER values are int64;
    * a BIT STRING's `Bytes` holds exactly ⌈BitLength/8⌉ octets;
    * in a CHOICE value only the selected alternative is set.
    (No bound on lengths: strings and open types of 16K items or more are fragmented, X.691 11.9.3.8.) -/
def regular (env : Env) : Nat → Ty → Bool → Val → Bool
  | 0, _, _, _ => true
  | fuel + 1, ty, ot, v =>
    match ty, v with
    | .ptr t, .ptr v' => regular env fuel t ot v'
    | .int, .int n => decide (-(2 ^ 63) ≤ n) && decide (n < 2 ^ 63)
    | .bits, .bits bytes len => decide (bytes.length = (len + 7) / 8)
    | .slice t, .slice vs => vs.all (fun e => regular env fuel t ot e)
    | .struct id, .struct fs =>
      match env[id]? with
      | none => true
      | some sd =>
        if isChoice sd then
          match fs with
          | .int p :: alts =>
            (alts.zipIdx.all fun (a, i) => i + 1 = p.toNat || (match a with | .nil => true | _ => false)) &&
            (match sd.fields[p.toNat]?, fs[p.toNat]? with
             | some fd, some alt => regular env fuel fd.ty fd.params.openType alt
             | _, _ => true)
          | _ => true
        else
          (List.zip sd.fields fs).all (fun (fd, v) =>
            (fd.params.optional && isNilV v) || regular env fuel fd.ty fd.params.openType v)
    | _, _ => true

theorem tyParamsOK_refValue (env : Env) (x : Option Int) : ∀ (ty : Ty) (p : Params),
    tyParamsOK env ty { p with refValue := x } = tyParamsOK env ty p := by
  intro ty
  induction ty with
  | ptr t ih => intro p; simp only [tyParamsOK]; exact ih p
  | slice t ih =>
    intro p
    simp only [tyParamsOK]
    have := ih (stripSizeE p)
    simp only [stripSizeE] at this ⊢
    rw [this]
    rfl
  | _ => intro p; rfl

theorem isChoice_eq (sd : StructDef) : Spec.X691.isChoice sd = Aper.isChoice sd := rfl

/-- the governing value of an open type: what `getReferenceFieldValue` returns is what the specification reads -/
theorem refFieldValue_fwd (env : Env) : ∀ (fuel : Nat) (ty : Ty) (v : Val) (x : Int),
    refFieldValue env fuel ty v = .ok x → Spec.X691.governor env fuel ty v = some x := by
  intro fuel
  induction fuel with
  | zero => intro ty v x h; simp [refFieldValue, hang] at h
  | succ fuel ih =>
    intro ty v x h
    cases ty <;> cases v <;> try (simp [refFieldValue, err] at h; done)
    · simp only [refFieldValue, Except.ok.injEq] at h; subst h; rfl
    · rename_i id fs
      simp only [refFieldValue] at h
      simp only [Spec.X691.governor]
      cases hsd : env[id]? with
      | none => rw [hsd] at h; simp [err] at h
      | some sd =>
        rw [hsd] at h
        dsimp only at h ⊢
        cases hf : sd.fields with
        | nil => rw [hf] at h; simp [Aper.panic] at h
        | cons f0 frest =>
          rw [hf] at h
          dsimp only at h
          have hch : Spec.X691.isChoice sd = (f0.name == "Present") := by
            unfold Spec.X691.isChoice; rw [hf]
          rw [hch]
          by_cases hp : (f0.name == "Present") = true
          · simp only [hp, if_true] at h ⊢
            split at h
            · rename_i p tl
              split at h
              · simp [err] at h
              · rename_i hp0
                split at h
                · simp [err] at h
                · simp only [hp0, if_false]
                  split at h
                  · rename_i f v' hf' hv'
                    rw [hf', hv']
                    exact ih _ _ _ h
                  · simp [err] at h
            · simp [err] at h
          · simp only [hp, if_false, Bool.false_eq_true] at h ⊢
            split at h
            · rename_i v0 tl
              exact ih _ _ _ h
            · simp [err] at h

theorem findIdx?_take {α : Type} (p : α → Bool) : ∀ (l : List α) (i k : Nat),
    (l.take i).findIdx? p = some k → l.findIdx? p = some k := by
  intro l
  induction l with
  | nil => intro i k h; simp at h
  | cons a l ih =>
    intro i k h
    cases i with
    | zero => simp at h
    | succ i =>
      rw [List.take_succ_cons, List.findIdx?_cons] at h
      rw [List.findIdx?_cons]
      by_cases hp : p a = true
      · simp only [hp, if_true] at h ⊢; exact h
      · simp only [hp, if_false, Bool.false_eq_true] at h ⊢
        cases hq : (l.take i).findIdx? p with
        | none => rw [hq] at h; simp at h
        | some k' =>
          rw [hq] at h
          rw [ih i k' hq]
          exact h

theorem notNil_eq (v : Val) : (!(isNil v)) = (match v with | .nil => false | _ => true) := by
  cases v <;> rfl

def presentB (v : Val) : Bool := match v with | .nil => false | _ => true

theorem notNil_of (v : Val) (hn : ¬ isNil v = true) : presentB v = true := by
  cases v <;> first | rfl | exact absurd rfl hn

/-- 19.2/19.3: the OPTIONAL bitmap, and the "mandatory components are present" check -/
theorem optBitmap_fwd : ∀ (fields : List Field) (fs : List Val) (bm : Bits), fs.length = fields.length →
    optBitmap fields fs = .ok bm →
    (List.zip fields fs).all (fun (fd, v) => fd.params.optional || (match v with | .nil => false | _ => true)) = true ∧
    (List.zip fields fs).filterMap (fun (fd, v) =>
      if fd.params.optional then some (match v with | .nil => false | _ => true) else none) = bm := by
  intro fields
  induction fields with
  | nil =>
    intro fs bm hl h
    cases fs with
    | nil => simp [optBitmap] at h; simp [h]
    | cons v vs => simp at hl
  | cons fd frest ih =>
    intro fs bm hl h
    cases fs with
    | nil => simp at hl
    | cons v vs =>
      simp only [List.length_cons, Nat.add_right_cancel_iff] at hl
      simp only [optBitmap] at h
      simp only [List.zip_cons_cons, List.all_cons, List.filterMap_cons]
      by_cases ho : fd.params.optional = true
      · simp only [ho, if_true] at h ⊢
        split at h
        · simp [Aper.panic] at h
        cases hr : optBitmap frest vs with
        | error e => rw [hr] at h; simp at h
        | ok b' =>
          rw [hr] at h
          simp only [Except.ok.injEq] at h
          obtain ⟨h1, h2⟩ := ih vs b' hl hr
          refine ⟨by simpa using h1, ?_⟩
          rw [h2, ← h, notNil_eq]
      · simp only [ho, if_false, Bool.false_eq_true] at h ⊢
        split at h
        · simp [err] at h
        · rename_i hn
          obtain ⟨h1, h2⟩ := ih vs bm hl h
          refine ⟨?_, h2⟩
          rw [h1]
          simp only [Bool.false_or, Bool.and_true]
          exact notNil_of v hn

/-- 20: the elements of a SEQUENCE OF -/
theorem encElems_fwd (f : Nat → Val → Res Bits) (enc : Nat → Val → Option Bits) :
    ∀ (vs : List Val) (pos : Nat) (b : Bits),
      (∀ v ∈ vs, ∀ pos b, f pos v = .ok b → enc pos v = some b) →
      encElems f pos vs = .ok b → Spec.X691.elements enc pos vs = some b := by
  intro vs
  induction vs with
  | nil => intro pos b _ h; simp only [encElems, Except.ok.injEq] at h; simp [Spec.X691.elements, h]
  | cons v vs ih =>
    intro pos b H h
    simp only [encElems] at h
    simp only [Spec.X691.elements]
    cases ha : f pos v with
    | error e => rw [ha] at h; simp at h
    | ok a =>
      rw [ha] at h
      dsimp only at h
      rw [H v List.mem_cons_self pos a ha]
      dsimp only
      cases hb : encElems f (pos + a.length) vs with
      | error e => rw [hb] at h; simp at h
      | ok b' =>
        rw [hb] at h
        simp only [Except.ok.injEq] at h
        rw [ih (pos + a.length) b' (fun v hv => H v (List.mem_cons_of_mem _ hv)) hb]
        simp [h]

/-- the parameters the specification codes a SEQUENCE component with (text of `Spec.X691.components`) -/
def specParams (gov : Ty → Val → Option Int) (allFields : List Field) (allVals : List Val) (fd : Field) : Option Params :=
  if fd.params.openType then
    match allFields.findIdx? (fun g => g.name == fd.params.refField) with
    | none => none
    | some k =>
      match allFields[k]?, allVals[k]? with
      | some rf, some rv => (gov rf.ty rv).map fun x => { fd.params with refValue := some x }
      | _, _ => none
  else some fd.params

theorem resolveRef_fwd (rfv : Ty → Val → Res Int) (gov : Ty → Val → Option Int)
    (hgov : ∀ ty v x, rfv ty v = .ok x → gov ty v = some x)
    (allFields : List Field) (allVals : List Val) (i : Nat) (fd : Field) (fp : Params)
    (h : resolveRef rfv allFields allVals i fd = .ok fp) :
    specParams gov allFields allVals fd = some fp ∧ (fp = fd.params ∨ ∃ x, fp = { fd.params with refValue := x }) := by
  unfold resolveRef at h
  unfold specParams
  by_cases ho : fd.params.openType = true
  · simp only [ho, if_true] at h ⊢
    unfold refIndex at h
    cases hk : (allFields.take i).findIdx? (fun f => f.name == fd.params.refField) with
    | none => rw [hk] at h; simp [err] at h
    | some k =>
      rw [hk] at h
      dsimp only at h
      rw [findIdx?_take _ _ _ _ hk]
      dsimp only
      split at h
      · rename_i rf rv hrf hrv
        rw [hrf, hrv]
        dsimp only
        cases hr : rfv rf.ty rv with
        | error e => rw [hr] at h; simp at h
        | ok x =>
          rw [hr] at h
          simp only [Except.ok.injEq] at h
          rw [hgov _ _ _ hr]
          exact ⟨by simp [h], Or.inr ⟨some x, h.symm⟩⟩
      · simp [err] at h
  · simp only [ho, if_false, Bool.false_eq_true, Except.ok.injEq] at h ⊢
    exact ⟨by rw [h], Or.inl h.symm⟩

/-- the value-side condition on the components of a SEQUENCE value -/
def regularFields (env : Env) (fuel : Nat) (fields : List Field) (vals : List Val) : Bool :=
  (List.zip fields vals).all (fun (fd, v) =>
    (fd.params.optional && isNilV v) || regular env fuel fd.ty fd.params.openType v)

theorem components_cons (enc : Nat → Ty → Params → Val → Option Bits) (gov : Ty → Val → Option Int)
    (allF : List Field) (allV : List Val) (pos : Nat) (fd : Field) (frest : List Field) (v : Val) (vrest : List Val)
    (hns : ¬ (fd.params.optional = true ∧ isNil v = true)) :
    Spec.X691.components enc gov allF allV pos (fd :: frest) (v :: vrest) =
      match specParams gov allF allV fd with
      | none => none
      | some p =>
        match enc pos fd.ty p v with
        | none => none
        | some a =>
          match Spec.X691.components enc gov allF allV (pos + a.length) frest vrest with
          | none => none
          | some b => some (a ++ b) := by
  simp only [Spec.X691.components]
  split
  · rename_i hopt
    exact absurd ⟨hopt, rfl⟩ hns
  · rfl

/-- 19.5: the components of a SEQUENCE in order -/
theorem encSeqFields_fwd (env : Env) (fuel : Nat)
    (f : Nat → Ty → Params → Val → Res Bits) (enc : Nat → Ty → Params → Val → Option Bits)
    (rfv : Ty → Val → Res Int) (gov : Ty → Val → Option Int)
    (hgov : ∀ ty v x, rfv ty v = .ok x → gov ty v = some x)
    (H : ∀ pos ty p v b, tyParamsOK env ty p = true → regular env fuel ty p.openType v = true →
      f pos ty p v = .ok b → enc pos ty p v = some b)
    (allFields : List Field) (allVals : List Val) :
    ∀ (fields : List Field) (vals : List Val) (i pos : Nat) (b : Bits),
      vals.length = fields.length →
      (∀ fd ∈ fields, tyParamsOK env fd.ty fd.params = true) →
      regularFields env fuel fields vals = true →
      encSeqFields f rfv allFields allVals i pos fields vals = .ok b →
      Spec.X691.components enc gov allFields allVals pos fields vals = some b := by
  intro fields
  induction fields with
  | nil =>
    intro vals i pos b hl _ _ h
    cases vals with
    | nil => simp only [encSeqFields, Except.ok.injEq] at h; simp [Spec.X691.components, h]
    | cons v vs => simp at hl
  | cons fd frest ih =>
    intro vals i pos b hl hok hreg h
    cases vals with
    | nil => simp at hl
    | cons v vrest =>
      simp only [List.length_cons, Nat.add_right_cancel_iff] at hl
      simp only [regularFields, List.zip_cons_cons, List.all_cons, Bool.and_eq_true] at hreg
      obtain ⟨hreg1, hreg2⟩ := hreg
      simp only [encSeqFields] at h
      by_cases hskip : fd.params.optional = true ∧ isNil v = true
      · simp only [hskip, and_self, if_true] at h
        have hv : v = .nil := by
          cases v <;> simp [isNil] at hskip
          rfl
        subst hv
        simp only [Spec.X691.components]
        rw [hskip.1]
        exact ih vrest (i + 1) pos b hl (fun fd' hfd => hok fd' (List.mem_cons_of_mem _ hfd)) hreg2 h
      · simp only [hskip, if_false] at h
        have hreg1' : regular env fuel fd.ty fd.params.openType v = true := by
          rcases Bool.or_eq_true _ _ |>.mp hreg1 with h1 | h1
          · exfalso
            simp only [Bool.and_eq_true] at h1
            apply hskip
            refine ⟨h1.1, ?_⟩
            cases v <;> simp_all [isNilV, isNil]
          · exact h1
        rw [components_cons _ _ _ _ _ _ _ _ _ hskip]
        cases hres : resolveRef rfv allFields allVals i fd with
        | error e => rw [hres] at h; simp at h
        | ok fp =>
          rw [hres] at h
          dsimp only at h
          obtain ⟨hsp, hfp⟩ := resolveRef_fwd rfv gov hgov allFields allVals i fd fp hres
          have hfpok : tyParamsOK env fd.ty fp = true := by
            rcases hfp with rfl | ⟨x, rfl⟩
            · exact hok fd List.mem_cons_self
            · rw [tyParamsOK_refValue]; exact hok fd List.mem_cons_self
          have hfpot : fp.openType = fd.params.openType := by
            rcases hfp with rfl | ⟨x, rfl⟩ <;> rfl
          cases ha : f pos fd.ty fp v with
          | error e => rw [ha] at h; simp at h
          | ok a =>
            rw [ha] at h
            dsimp only at h
            have hea := H pos fd.ty fp v a hfpok (by rw [hfpot]; exact hreg1') ha
            cases hb : encSeqFields f rfv allFields allVals (i + 1) (pos + a.length) frest vrest with
            | error e => rw [hb] at h; simp at h
            | ok b' =>
              rw [hb] at h
              simp only [Except.ok.injEq] at h
              have hrest := ih vrest (i + 1) (pos + a.length) b' hl
                (fun fd' hfd => hok fd' (List.mem_cons_of_mem _ hfd)) hreg2 hb
              rw [hsp]
              dsimp only
              rw [hea]
              dsimp only
              rw [hrest]
              simp [h]

/-- 20.5/20.6: extension bit and count of a SEQUENCE OF -/
theorem sliceHeader_fwd (params : Params) (n pos1 : Nat) (pre : Bits) (lb ub sr : Int) (cb : Bits)
    (hok : sliceOK params = true)
    (hh : sliceHeader params n = .ok (pre, lb, ub, sr))
    (hc : sliceCountBits pos1 n lb ub sr = .ok cb) :
    ∃ lbS ubS, sizeConstraint n params.sizeExt params.sizeLB params.sizeUB = some (pre, lbS, ubS) ∧
      (if ubS = some lbS ∧ lbS < 65536 then some [] else lengthDeterminant pos1 n lbS ubS) = some cb := by
  unfold sliceHeader at hh
  unfold sliceCountBits at hc
  unfold sizeConstraint
  unfold sliceOK at hok
  cases hlb : params.sizeLB with
  | none =>
    rw [hlb] at hh hok
    cases hub : params.sizeUB with
    | some u => rw [hub] at hok; simp at hok
    | none =>
      rw [hub] at hh
      simp only [Except.ok.injEq, Prod.mk.injEq] at hh
      obtain ⟨rfl, rfl, rfl, rfl⟩ := hh
      have c1 : ¬ ((n : Int) < 0) := by omega
      simp only [c1, if_false] at hc
      have c2 : ¬ ((-1 : Int) = 1) := by decide
      have c3 : ¬ ((-1 : Int) > 0) := by decide
      simp only [c2, c3, if_false] at hc
      split at hc
      · simp [err] at hc
      · rename_i hn
        refine ⟨0, none, rfl, ?_⟩
        simp only [reduceCtorEq, false_and, if_false]
        exact length_fwd_unc pos1 (-1) n 0 none cb (by omega) (by omega) (by simp) hc
  | some l =>
    rw [hlb] at hh hok
    cases hub : params.sizeUB with
    | none =>
      rw [hub] at hh hok
      simp only [Bool.and_eq_true, decide_eq_true_eq] at hok
      obtain ⟨hl0, hl64⟩ := hok
      simp only [hl64, if_true, Except.ok.injEq, Prod.mk.injEq] at hh
      obtain ⟨rfl, rfl, rfl, rfl⟩ := hh
      split at hc
      · simp [err] at hc
      · rename_i hnl
        have c2 : ¬ ((-1 : Int) = 1) := by decide
        have c3 : ¬ ((-1 : Int) > 0) := by decide
        simp only [c2, c3, if_false] at hc
        split at hc
        · simp [err] at hc
        · rename_i hn
          have g1 : ¬ (l < 0 ∨ (n : Int) < l) := by omega
          simp only [g1, if_false]
          refine ⟨l.toNat, none, rfl, ?_⟩
          simp only [reduceCtorEq, false_and, if_false]
          exact length_fwd_unc pos1 (-1) n _ none cb (by omega) (by omega) (by simp) hc
    | some u =>
      rw [hub] at hh hok
      simp only [Bool.and_eq_true, Bool.or_eq_true, decide_eq_true_eq, Bool.not_eq_true'] at hok
      obtain ⟨⟨⟨hl0, hlu⟩, hl64⟩, hu64⟩ := hok
      simp only [hl64, if_true] at hh
      have g0 : ¬ (l < 0 ∨ u < l) := by omega
      simp only [g0, if_false]
      by_cases hu : u < 65536
      · simp only [hu, if_true] at hh
        by_cases hnu : (n : Int) > u
        · -- above the root: only with an extension marker
          cases hext : params.sizeExt with
          | false => rw [hext] at hh; simp [hnu, err] at hh
          | true =>
            rw [hext] at hh
            simp only [if_true, hnu, Except.ok.injEq, Prod.mk.injEq] at hh
            obtain ⟨rfl, rfl, rfl, rfl⟩ := hh
            have c1 : ¬ ((n : Int) < l) := by omega
            have c2 : ¬ ((-1 : Int) = 1) := by decide
            have c3 : ¬ ((-1 : Int) > 0) := by decide
            simp only [c1, c2, c3, if_false] at hc
            split at hc
            · simp [err] at hc
            · rename_i hn
              have g1 : ¬ ((n : Int) ≥ l ∧ (n : Int) ≤ u) := by omega
              simp only [g1, if_false, hnu, and_self, if_true]
              refine ⟨0, none, rfl, ?_⟩
              simp only [reduceCtorEq, false_and, if_false]
              exact length_fwd_unc pos1 (-1) n _ none cb (by omega) (by omega) (by simp) hc
        · -- inside the root
          have hpre : pre = (if params.sizeExt then [false] else []) ∧ lb = l ∧ ub = u ∧ sr = u - l + 1 := by
            cases hext : params.sizeExt with
            | false =>
              rw [hext] at hh
              simp only [Bool.false_eq_true, if_false, hnu, Except.ok.injEq, Prod.mk.injEq] at hh
              obtain ⟨rfl, rfl, rfl, rfl⟩ := hh
              simp
            | true =>
              rw [hext] at hh
              simp only [if_true, hnu, if_false, Except.ok.injEq, Prod.mk.injEq] at hh
              obtain ⟨rfl, rfl, rfl, rfl⟩ := hh
              simp
          obtain ⟨rfl, rfl, rfl, rfl⟩ := hpre
          split at hc
          · simp [err] at hc
          · rename_i hnl
            have g1 : (n : Int) ≥ lb ∧ (n : Int) ≤ ub := by omega
            simp only [g1, and_self, if_true]
            refine ⟨lb.toNat, some ub.toNat, rfl, ?_⟩
            by_cases hsr : ub - lb + 1 = 1
            · simp only [hsr, if_true] at hc
              split at hc
              · simp [err] at hc
              · simp only [Except.ok.injEq] at hc
                have : some ub.toNat = some lb.toNat ∧ lb.toNat < 65536 := ⟨by congr 1; omega, by omega⟩
                simp only [this, and_self, if_true, hc]
            · have hpos : ub - lb + 1 > 0 := by omega
              simp only [hsr, if_false, hpos, if_true] at hc
              have : ¬ (some ub.toNat = some lb.toNat ∧ lb.toNat < 65536) := by
                intro ⟨h1, _⟩
                simp only [Option.some.injEq] at h1
                omega
              simp only [this, if_false]
              have hcw := constrained_fwd pos1 _ _ cb (by omega) (by omega) hc
              unfold lengthDeterminant
              have g2 : ub.toNat < 65536 := by omega
              have g3 : ¬ (n < lb.toNat ∨ n > ub.toNat) := by omega
              simp only [g2, g3, if_true, if_false]
              have e1 : ((n : Int) - lb).toNat = n - lb.toNat := by omega
              have e2 : (ub - lb + 1).toNat = ub.toNat - lb.toNat + 1 := by omega
              rw [e1, e2] at hcw
              exact hcw
      · -- upper bound of 64K or more: treated as absent by the library, not extensible
        have hne : params.sizeExt = false := by
          rcases hu64 with h | h
          · omega
          · exact h
        simp only [hu, if_false, Except.ok.injEq, Prod.mk.injEq] at hh
        obtain ⟨rfl, rfl, rfl, rfl⟩ := hh
        split at hc
        · simp [err] at hc
        · rename_i hnl
          have c2 : ¬ ((-1 : Int) = 1) := by decide
          have c3 : ¬ ((-1 : Int) > 0) := by decide
          simp only [c2, c3, if_false] at hc
          split at hc
          · simp [err] at hc
          · rename_i hn
            have g1 : (n : Int) ≥ l ∧ (n : Int) ≤ u := by omega
            simp only [g1, and_self, if_true, hne, Bool.false_eq_true, if_false]
            refine ⟨l.toNat, some u.toNat, rfl, ?_⟩
            have : ¬ (some u.toNat = some l.toNat ∧ l.toNat < 65536) := by
              intro ⟨h1, _⟩
              simp only [Option.some.injEq] at h1
              omega
            simp only [this, if_false]
            exact length_fwd_unc pos1 (-1) n _ _ cb (by omega) (by omega)
              (by intro u' hu'; simp only [Option.some.injEq] at hu'; omega) hc

theorem padded_length (n : Nat) : n + (alignBits n).length = 8 * ((n + 7) / 8) := by
  rw [alignBits_length]; omega

/-- 11.2 open type: a non-empty content, padded to whole octets, behind a general length (fragmented from 16K octets on) -/
theorem openType_fwd (pos1 : Nat) (inner b : Bits) (hne : inner ≠ [])
    (h : encOpenType pos1 inner = .ok b) :
    b = lengthAndItems 8 ((inner ++ pad inner.length).length / 8 / 16384 + 1) pos1
          ((inner ++ pad inner.length).length / 8) (inner ++ pad inner.length) := by
  unfold encOpenType at h
  dsimp only at h
  have hpl : (inner ++ alignBits inner.length).length = 8 * ((inner.length + 7) / 8) := by
    rw [List.length_append]; exact padded_length _
  have e : (inner ++ pad inner.length).length / 8 = (inner.length + 7) / 8 := by
    rw [pad_eq, hpl]; omega
  rw [e, pad_eq]
  rw [fragLoop_unc 8 (by decide) ((inner.length + 7) / 8 / 16384 + 1) pos1 ((inner.length + 7) / 8)
    (inner ++ alignBits inner.length) (by rw [hpl]; omega) (Nat.le_refl _)] at h
  simp only [Except.ok.injEq] at h
  exact h.symm

/-- text of the SEQUENCE branch of `Spec.X691.encode` -/
def specSeq (enc : Nat → Ty → Params → Val → Option Bits) (gov : Ty → Val → Option Int) (sd : StructDef)
    (pre : Bits) (pos1 : Nat) (fs : List Val) : Option Bits :=
  if fs.length ≠ sd.fields.length then none
  else if ¬ (List.zip sd.fields fs).all (fun (fd, v) => fd.params.optional || (match v with | .nil => false | _ => true)) then none
  else
    let bitmap : Bits := (List.zip sd.fields fs).filterMap fun (fd, v) =>
      if fd.params.optional then some (match v with | .nil => false | _ => true) else none
    match Spec.X691.components enc gov sd.fields fs (pos1 + bitmap.length) sd.fields fs with
    | none => none
    | some body => some (pre ++ bitmap ++ body)

/-- text of the CHOICE / open type branch of `Spec.X691.encode` -/
def specChoice (enc : Nat → Ty → Params → Val → Option Bits) (sd : StructDef) (params : Params)
    (pre : Bits) (pos1 : Nat) (fs : List Val) : Option Bits :=
  match fs with
  | .int p :: alts =>
    let nAlt := sd.fields.length - 1
    if p < 1 ∨ p.toNat > nAlt then none
    else if ¬ (alts.zipIdx.all fun (a, i) => i + 1 = p.toNat || (match a with | .nil => true | _ => false)) then none
    else
      match sd.fields[p.toNat]?, fs[p.toNat]? with
      | some f, some alt =>
        if params.openType then
          if f.params.refValue.isNone ∨ f.params.refValue ≠ params.refValue then none
          else
            match enc 0 f.ty f.params alt with
            | none => none
            | some inner =>
              let octets := if inner.isEmpty then List.replicate 8 false else inner ++ pad inner.length
              some (pre ++ lengthAndItems 8 (octets.length / 8 / 16384 + 1) pos1 (octets.length / 8) octets)
        else
          match params.valueUB with
          | some ub =>
            if ub + 1 ≠ (nAlt : Int) then none else
            match constrainedWholeNumber pos1 (p.toNat - 1) nAlt with
            | none => none
            | some ib =>
              match enc (pos1 + ib.length) f.ty f.params alt with
              | none => none
              | some ab => some (pre ++ ib ++ ab)
          | none => none
      | _, _ => none
  | _ => none

theorem encode_struct (env : Env) (fuel pos id : Nat) (params : Params) (fs : List Val) (sd : StructDef)
    (hsd : env[id]? = some sd) :
    Spec.X691.encode env (fuel + 1) pos (.struct id) params (.struct fs) =
      if Aper.isChoice sd then
        specChoice (Spec.X691.encode env fuel) sd params (if params.valueExt then [false] else [])
          (pos + (if params.valueExt then [false] else [] : Bits).length) fs
      else
        specSeq (Spec.X691.encode env fuel) (Spec.X691.governor env fuel) sd (if params.valueExt then [false] else [])
          (pos + (if params.valueExt then [false] else [] : Bits).length) fs := by
  simp only [Spec.X691.encode, hsd]
  rfl

theorem encode_slice (env : Env) (fuel pos : Nat) (t : Ty) (params : Params) (vs : List Val) :
    Spec.X691.encode env (fuel + 1) pos (.slice t) params (.slice vs) =
      match sizeConstraint vs.length params.sizeExt params.sizeLB params.sizeUB with
      | none => none
      | some (pre, lb, ub) =>
        match (if ub = some lb ∧ lb < 65536 then some [] else lengthDeterminant (pos + pre.length) vs.length lb ub : Option Bits) with
        | none => none
        | some c =>
          match Spec.X691.elements (fun p e => Spec.X691.encode env fuel p t (stripSizeE params) e) (pos + pre.length + c.length) vs with
          | none => none
          | some es => some (pre ++ c ++ es) := by
  simp only [Spec.X691.encode]
  rfl

/-- 19 SEQUENCE body -/
theorem encSeq_fwd (env : Env) (fuel : Nat)
    (f : Nat → Ty → Params → Val → Res Bits) (enc : Nat → Ty → Params → Val → Option Bits)
    (rfv : Ty → Val → Res Int) (gov : Ty → Val → Option Int)
    (hgov : ∀ ty v x, rfv ty v = .ok x → gov ty v = some x)
    (H : ∀ pos ty p v b, tyParamsOK env ty p = true → regular env fuel ty p.openType v = true →
      f pos ty p v = .ok b → enc pos ty p v = some b)
    (sd : StructDef) (pre : Bits) (pos1 : Nat) (fs : List Val) (body : Bits)
    (hok : ∀ fd ∈ sd.fields, tyParamsOK env fd.ty fd.params = true)
    (hreg : regularFields env fuel sd.fields fs = true)
    (h : encSeq f rfv sd pos1 fs = .ok body) : specSeq enc gov sd pre pos1 fs = some (pre ++ body) := by
  unfold encSeq at h
  split at h
  · simp [err] at h
  · rename_i hl
    have hl' : fs.length = sd.fields.length := by omega
    cases hbm : optBitmap sd.fields fs with
    | error e => rw [hbm] at h; simp at h
    | ok bm =>
      rw [hbm] at h
      dsimp only at h
      cases hb : encSeqFields f rfv sd.fields fs 0 (pos1 + bm.length) sd.fields fs with
      | error e => rw [hb] at h; simp at h
      | ok b =>
        rw [hb] at h
        simp only [Except.ok.injEq] at h
        obtain ⟨h1, h2⟩ := optBitmap_fwd sd.fields fs bm hl' hbm
        have hcomp := encSeqFields_fwd env fuel f enc rfv gov hgov H sd.fields fs sd.fields fs 0 (pos1 + bm.length) b
          hl' hok hreg hb
        unfold specSeq
        split
        · rename_i hc; exact absurd hl' hc
        · dsimp only
          rw [h2, hcomp, ← h]
          simp

/-- the value-side condition on a CHOICE value (text of the CHOICE branch of `regular`) -/
def regChoice (env : Env) (fuel : Nat) (sd : StructDef) (fs : List Val) : Bool :=
  match fs with
  | .int p :: alts =>
    (alts.zipIdx.all fun (a, i) => i + 1 = p.toNat || (match a with | .nil => true | _ => false)) &&
    (match sd.fields[p.toNat]?, fs[p.toNat]? with
     | some fd, some alt => regular env fuel fd.ty fd.params.openType alt
     | _, _ => true)
  | _ => true

theorem regular_struct (env : Env) (fuel id : Nat) (ot : Bool) (fs : List Val) (sd : StructDef)
    (hsd : env[id]? = some sd) :
    regular env (fuel + 1) (.struct id) ot (.struct fs) =
      if isChoice sd then regChoice env fuel sd fs else regularFields env fuel sd.fields fs := by
  simp only [regular, hsd]
  rfl

/-- the schema-side condition on a CHOICE type used with parameters `params` (text of `structOK`) -/
def choiceOK (env : Env) (sd : StructDef) (p : Params) : Bool :=
  if p.openType then sd.fields.tail.all (fun fd => nonEmptyEnc env 6 fd.ty fd.params)
  else
    match p.valueUB with
    | none => true
    | some ub => ub + 1 == ((sd.fields.length - 1 : Nat) : Int) && decide (3 ≤ sd.fields.length)

theorem structOK_eq (env : Env) (id : Nat) (p : Params) (sd : StructDef) (hsd : env[id]? = some sd) :
    structOK env id p = if isChoice sd then choiceOK env sd p else true := by
  unfold structOK
  split
  · rename_i hc
    simp only [Bool.and_eq_true, Bool.not_eq_true', Option.isNone_iff_eq_none] at hc
    simp [choiceOK, hc.1, hc.2]
  · simp only [hsd]
    rfl

theorem getElem?_tail_mem {α : Type} (l : List α) (k : Nat) (a : α) (hk : 1 ≤ k) (h : l[k]? = some a) : a ∈ l.tail := by
  cases l with
  | nil => simp at h
  | cons x xs =>
    obtain ⟨k', rfl⟩ : ∃ k', k = k' + 1 := ⟨k - 1, by omega⟩
    simp at h
    exact List.mem_of_getElem? h

/-- 23 CHOICE and 11.2 open type -/
theorem encChoice_fwd (env : Env) (fuel : Nat)
    (H : ∀ pos ty p v b, tyParamsOK env ty p = true → regular env fuel ty p.openType v = true →
      encField env fuel pos ty p v = .ok b → Spec.X691.encode env fuel pos ty p v = some b)
    (sd : StructDef) (params : Params) (pre : Bits) (pos1 : Nat) (fs : List Val) (body : Bits)
    (hfields : ∀ fd ∈ sd.fields, tyParamsOK env fd.ty fd.params = true)
    (hne : params.openType = true → ∀ fd ∈ sd.fields.tail, ∀ alt inner,
      encField env fuel 0 fd.ty fd.params alt = .ok inner → inner ≠ [])
    (hok : choiceOK env sd params = true)
    (hreg : regChoice env fuel sd fs = true)
    (h : encChoice (encField env fuel) sd params pos1 fs = .ok body) :
    specChoice (Spec.X691.encode env fuel) sd params pre pos1 fs = some (pre ++ body) := by
  unfold encChoice at h
  split at h
  · rename_i p alts
    split at h
    · simp [err] at h
    · rename_i hp0
      split at h
      · simp [err] at h
      · rename_i hplen
        split at h
        · rename_i fd alt hfd halt
          simp only [regChoice, hfd, halt, Bool.and_eq_true] at hreg
          obtain ⟨hnil, hregalt⟩ := hreg
          have hfdmem : fd ∈ sd.fields := List.mem_of_getElem? hfd
          have hfdok := hfields fd hfdmem
          unfold specChoice
          dsimp only
          have c1 : ¬ (p < 1 ∨ p.toNat > sd.fields.length - 1) := by omega
          simp only [c1, if_false, hfd, halt]
          by_cases hot : params.openType = true
          · simp only [hot, if_true] at h ⊢
            cases hrv : params.refValue with
            | none => rw [hrv] at h; simp [err] at h
            | some rv =>
              rw [hrv] at h
              dsimp only at h
              split at h
              · simp [err] at h
              · rename_i hrveq
                have hrveq' : fd.params.refValue = some rv := by
                  false_or_by_contra; rename_i hc; exact hrveq hc
                have c2 : ¬ (fd.params.refValue.isNone = true ∨ fd.params.refValue ≠ some rv) := by
                  rw [hrveq']; simp
                simp only [c2, if_false]
                cases hin : encField env fuel 0 fd.ty fd.params alt with
                | error e => rw [hin] at h; simp at h
                | ok inner =>
                  rw [hin] at h
                  dsimp only at h
                  rw [H 0 fd.ty fd.params alt inner hfdok hregalt hin]
                  dsimp only
                  have hinne : inner ≠ [] :=
                    hne hot fd (getElem?_tail_mem _ _ _ (by omega) hfd) alt inner hin
                  have hemp : inner.isEmpty = false := by
                    cases inner with
                    | nil => exact absurd rfl hinne
                    | cons x xs => rfl
                  simp only [hemp, Bool.false_eq_true, if_false]
                  rw [openType_fwd pos1 inner body hinne h]
                  split
                  · rename_i hc; exact absurd hnil hc
                  · rfl
          · simp only [hot, if_false, Bool.false_eq_true] at h ⊢
            simp only [choiceOK, hot, if_false, Bool.false_eq_true] at hok
            cases hub : params.valueUB with
            | none => rw [hub] at h; simp [appendChoiceIndex, err] at h
            | some ub =>
              rw [hub] at h hok
              simp only [Bool.and_eq_true, beq_iff_eq, decide_eq_true_eq] at hok
              obtain ⟨hub1, hlen3⟩ := hok
              dsimp only
              have c3 : ¬ (ub + 1 ≠ ((sd.fields.length - 1 : Nat) : Int)) := by omega
              simp only [c3, if_false]
              cases hib : appendChoiceIndex pos1 p.toNat params.valueExt (some ub) with
              | error e => rw [hib] at h; simp at h
              | ok ib =>
                rw [hib] at h
                dsimp only at h
                rw [choice_index_fwd pos1 p.toNat (sd.fields.length - 1) params.valueExt ub ib hub1 (by omega) (by omega) (by omega) hib]
                dsimp only
                cases hab : encField env fuel (pos1 + ib.length) fd.ty fd.params alt with
                | error e => rw [hab] at h; simp at h
                | ok ab =>
                  rw [hab] at h
                  simp only [Except.ok.injEq] at h
                  rw [H _ fd.ty fd.params alt ab hfdok hregalt hab]
                  dsimp only
                  rw [← h]
                  simp only [List.append_assoc]
                  split
                  · rename_i hc; exact absurd hnil hc
                  · rfl
        · simp [err] at h
  · simp [err] at h

/-! ### an open type never has an empty content (soundness of `nonEmptyEnc`) -/

theorem octetCount_pos (f x : Nat) : 1 ≤ octetCount f x := by
  cases f with
  | zero => simp [octetCount]
  | succ f => unfold octetCount; split <;> omega

theorem ne_nil_of_length_pos {α : Type} (l : List α) (h : 0 < l.length) : l ≠ [] := by
  intro hn; rw [hn] at h; simp at h

theorem putBitsValue_length (v n : Nat) (bits : Bits) (h : putBitsValue v n = .ok bits) : bits.length = n := by
  unfold putBitsValue at h
  split at h
  · rename_i h0; simp only [Except.ok.injEq] at h; rw [← h, h0]; rfl
  · split at h
    · simp [err] at h
    · simp only [Except.ok.injEq] at h; rw [← h, natToBits_length]

theorem intTail_nonempty (pos : Nat) (v : Int) (pre : Bits) (lb range : Int) (b : Bits)
    (hc : pre ≠ [] ∨ range ≠ 1) (h : intTail pos v pre lb range = .ok b) : b ≠ [] := by
  unfold intTail at h
  dsimp only at h
  split at h
  · rename_i hr
    simp only [Except.ok.injEq] at h
    rcases hc with hc | hc
    · rw [← h]; exact hc
    · exact absurd hr hc
  · split at h
    · split at h
      · simp at h
      · simp only [Except.ok.injEq] at h
        apply ne_nil_of_length_pos
        rw [← h]
        simp only [List.length_append, natToBits_length]
        omega
    · split at h
      · split at h
        · simp at h
        · rename_i c hcv
          simp only [Except.ok.injEq] at h
          have := constraintValue_nonempty _ _ _ c hcv
          rw [← h]
          simp [this]
      · split at h
        · simp at h
        · rename_i lenBits hl
          split at h
          · simp at h
          · simp only [Except.ok.injEq] at h
            have hlen := putBitsValue_length _ _ _ hl
            have := (bitsForRange_pos (rangeByteLen range)).1
            apply ne_nil_of_length_pos
            rw [← h]
            simp only [List.length_append]
            omega

theorem appendInteger_nonempty (pos : Nat) (v : Int) (ext : Bool) (lbP ubP : Option Int) (b : Bits)
    (hc : ext = true ∨ (match lbP, ubP with | some l, some u => decide (l < u) | _, _ => true) = true)
    (h : appendInteger pos v ext lbP ubP = .ok b) : b ≠ [] := by
  rw [appendInteger_eq] at h
  cases lbP with
  | none =>
    dsimp only at h
    exact intTail_nonempty _ _ _ _ _ _ (Or.inr (by decide)) h
  | some l =>
    dsimp only at h
    by_cases hvl : v < l
    · simp [hvl, err] at h
    · simp only [hvl, if_false] at h
      cases ubP with
      | none =>
        exact intTail_nonempty _ _ _ _ _ _ (Or.inr (by decide)) h
      | some u =>
        dsimp only at h
        by_cases hvu : v ≤ u
        · simp only [hvu, if_true] at h
          refine intTail_nonempty _ _ _ _ _ _ ?_ h
          rcases hc with hc | hc
          · left; rw [hc]; simp
          · right; simp only [decide_eq_true_eq] at hc; omega
        · simp only [hvu, if_false] at h
          cases ext with
          | false => simp [err] at h
          | true =>
            simp only [Bool.not_true, Bool.false_eq_true, if_false] at h
            exact intTail_nonempty _ _ _ _ _ _ (Or.inl (by simp)) h

theorem appendEnumerated_nonempty (pos n : Nat) (ext : Bool) (lbP ubP : Option Int) (b : Bits)
    (hc : ext = true ∨ (match lbP, ubP with | some l, some u => decide (l < u) | _, _ => true) = true)
    (h : appendEnumerated pos n ext lbP ubP = .ok b) : b ≠ [] := by
  unfold appendEnumerated at h
  cases lbP with
  | none => simp [err] at h
  | some l =>
    cases ubP with
    | none => simp [err] at h
    | some u =>
      dsimp only at h
      split at h
      · simp [err] at h
      · split at h
        · simp [err] at h
        · split at h
          · split at h
            · simp at h
            · rename_i c hcv
              simp only [Except.ok.injEq] at h
              have := constraintValue_nonempty _ _ _ c hcv
              rw [← h]; simp [this]
          · rename_i hr
            simp only [Except.ok.injEq] at h
            rcases hc with hc | hc
            · rw [← h, hc]; simp
            · simp only [decide_eq_true_eq] at hc; omega

theorem appendLength_nonempty (pos : Nat) (sr : Int) (n : Nat) (b : Bits) (h : appendLength pos sr n = .ok b) : b ≠ [] := by
  unfold appendLength at h
  split at h
  · exact constraintValue_nonempty _ _ _ _ h
  · split at h
    · obtain ⟨x, hx, hb⟩ := bind_ok_eq _ _ _ h
      simp only [pure, Except.pure, Except.ok.injEq] at hb
      have := putBitsValue_length _ _ _ hx
      apply ne_nil_of_length_pos
      rw [← hb, List.length_append]; omega
    · split at h
      · obtain ⟨x, hx, hb⟩ := bind_ok_eq _ _ _ h
        simp only [pure, Except.pure, Except.ok.injEq] at hb
        have := putBitsValue_length _ _ _ hx
        apply ne_nil_of_length_pos
        rw [← hb, List.length_append]; omega
      · obtain ⟨x, hx, hb⟩ := bind_ok_eq _ _ _ h
        simp only [pure, Except.pure, Except.ok.injEq] at hb
        have := putBitsValue_length _ _ _ hx
        apply ne_nil_of_length_pos
        rw [← hb, List.length_append]; omega

theorem fragLoop_nonempty (unit : Nat) (sr : Int) (lb fuel pos raw : Nat) (payload b : Bits)
    (h : fragLoop unit sr lb (fuel + 1) pos raw payload = .ok b) : b ≠ [] := by
  unfold fragLoop at h
  dsimp only at h
  generalize (if raw ≥ 65536 then 65536 else if raw ≥ 16384 then raw &&& 0xc000 else raw) = part at h
  cases hl : appendLength pos sr part with
  | error e => rw [hl] at h; simp at h
  | ok lenBits =>
    rw [hl] at h
    dsimp only at h
    have hne := appendLength_nonempty _ _ _ _ hl
    split at h
    · simp only [Except.ok.injEq] at h; rw [← h]; exact hne
    · split at h
      · split at h
        · simp at h
        · simp only [Except.ok.injEq] at h; rw [← h]; simp [hne]
      · simp only [Except.ok.injEq] at h; rw [← h]; simp [hne]

theorem sizePreamble_sr1 (len : Nat) (ext : Bool) (lbP ubP : Option Int) (pre : Bits) (lb ub sr : Int)
    (h : sizePreamble len ext lbP ubP = .ok (pre, lb, ub, sr)) (hsr : sr = 1) : ∃ l, lbP = some l ∧ ubP = some ub := by
  unfold sizePreamble at h
  cases lbP with
  | none => simp only [Except.ok.injEq, Prod.mk.injEq] at h; omega
  | some l =>
    cases ubP with
    | none => simp only [Except.ok.injEq, Prod.mk.injEq] at h; omega
    | some u =>
      dsimp only at h
      split at h
      · split at h
        · simp [err] at h
        · simp only [Except.ok.injEq, Prod.mk.injEq] at h
          exact ⟨l, rfl, by rw [h.2.2.1]⟩
      · split at h
        · simp [err] at h
        · simp only [Except.ok.injEq, Prod.mk.injEq] at h; omega

theorem appendOctetString_nonempty (pos : Nat) (bytes : Bytes) (ext : Bool) (lbP ubP : Option Int) (b : Bits)
    (hc : (match lbP, ubP with | some _, some u => decide (0 < u) | _, _ => true) = true)
    (h : appendOctetString pos bytes ext lbP ubP = .ok b) : b ≠ [] := by
  unfold appendOctetString at h
  cases hsp : sizePreamble bytes.length ext lbP ubP with
  | error e => rw [hsp] at h; simp at h
  | ok t =>
    obtain ⟨pre, lb, ub, sr⟩ := t
    rw [hsp] at h
    dsimp only at h
    have hcl := bytesToBits_length bytes
    by_cases hsr : sr = 1
    · obtain ⟨l, rfl, rfl⟩ := sizePreamble_sr1 _ _ _ _ _ _ _ _ hsp hsr
      simp only [decide_eq_true_eq] at hc
      simp only [hsr, if_true] at h
      split at h
      · simp [err] at h
      · split at h
        · simp only [Except.ok.injEq] at h
          apply ne_nil_of_length_pos
          rw [← h]
          simp only [List.length_append]
          omega
        · split at h
          · simp [Aper.panic] at h
          · simp only [Except.ok.injEq] at h
            apply ne_nil_of_length_pos
            rw [← h]
            simp only [List.length_append]
            omega
    · simp only [hsr, if_false] at h
      split at h
      · split at h <;> simp [err, Aper.panic] at h
      · cases hf : fragLoop 8 sr lb.toNat (bytes.length / 16384 + 1 + 1) (pos + pre.length) (bytes.length - lb.toNat) (bytesToBits bytes) with
        | error e => rw [hf] at h; simp at h
        | ok b' =>
          rw [hf] at h
          simp only [Except.ok.injEq] at h
          have := fragLoop_nonempty _ _ _ _ _ _ _ _ hf
          rw [← h]; simp [this]

theorem appendBitString_nonempty (pos : Nat) (bytes : Bytes) (len : Nat) (ext : Bool) (lbP ubP : Option Int) (b : Bits)
    (hc : (match lbP, ubP with | some _, some u => decide (0 < u) | _, _ => true) = true)
    (h : appendBitString pos bytes len ext lbP ubP = .ok b) : b ≠ [] := by
  unfold appendBitString at h
  split at h
  · simp [Aper.panic] at h
  · rename_i hbl
    have hclen : ((bytesToBits bytes).take len).length = len := by
      rw [List.length_take, bytesToBits_length]; omega
    generalize (bytesToBits bytes).take len = content at h hclen
    cases hsp : sizePreamble len ext lbP ubP with
    | error e => rw [hsp] at h; simp at h
    | ok t =>
      obtain ⟨pre, lb, ub, sr⟩ := t
      rw [hsp] at h
      dsimp only at h
      by_cases hsr : sr = 1
      · obtain ⟨l, rfl, rfl⟩ := sizePreamble_sr1 _ _ _ _ _ _ _ _ hsp hsr
        simp only [decide_eq_true_eq] at hc
        simp only [hsr, if_true] at h
        split at h
        · simp [err] at h
        · split at h
          · simp only [Except.ok.injEq] at h
            apply ne_nil_of_length_pos
            rw [← h]
            simp only [List.length_append]
            omega
          · split at h
            · simp [Aper.panic] at h
            · simp only [Except.ok.injEq] at h
              apply ne_nil_of_length_pos
              rw [← h]
              simp only [List.length_append]
              omega
      · simp only [hsr, if_false] at h
        split at h
        · split at h <;> simp [err, Aper.panic] at h
        · cases hf : fragLoop 1 sr lb.toNat (len / 16384 + 1 + 1) (pos + pre.length) (len - lb.toNat) content with
          | error e => rw [hf] at h; simp at h
          | ok b' =>
            rw [hf] at h
            simp only [Except.ok.injEq] at h
            have := fragLoop_nonempty _ _ _ _ _ _ _ _ hf
            rw [← h]; simp [this]

theorem encSlice_nonempty (f : Nat → Val → Res Bits) (params : Params) (pos : Nat) (vs : List Val) (b : Bits)
    (hc : (match params.sizeLB, params.sizeUB with | some l, some u => decide (l < u) && decide (l < 65536) | _, _ => false) = true)
    (h : encSlice f params pos vs = .ok b) : b ≠ [] := by
  unfold encSlice at h
  cases hh : sliceHeader params vs.length with
  | error e => rw [hh] at h; simp at h
  | ok t4 =>
    obtain ⟨pre, lb, ub, sr⟩ := t4
    rw [hh] at h
    dsimp only at h
    cases hcb : sliceCountBits (pos + pre.length) vs.length lb ub sr with
    | error e => rw [hcb] at h; simp at h
    | ok cb =>
      rw [hcb] at h
      dsimp only at h
      cases he : encElems f (pos + pre.length + cb.length) vs with
      | error e => rw [he] at h; simp at h
      | ok eb =>
        rw [he] at h
        simp only [Except.ok.injEq] at h
        have key : pre ≠ [] ∨ cb ≠ [] := by
          unfold sliceHeader at hh
          unfold sliceCountBits at hcb
          cases hl : params.sizeLB with
          | none => rw [hl] at hc; simp at hc
          | some l =>
            cases hu : params.sizeUB with
            | none => rw [hl, hu] at hc; simp at hc
            | some u =>
              rw [hl, hu] at hc
              simp only [Bool.and_eq_true, decide_eq_true_eq] at hc
              rw [hl, hu] at hh
              simp only [hc.2, if_true] at hh
              by_cases hu64 : u < 65536
              · simp only [hu64, if_true] at hh
                cases hext : params.sizeExt with
                | true =>
                  rw [hext] at hh
                  simp only [if_true] at hh
                  left
                  split at hh <;>
                  · simp only [Except.ok.injEq, Prod.mk.injEq] at hh
                    rw [← hh.1]; simp
                | false =>
                  rw [hext] at hh
                  simp only [Bool.false_eq_true, if_false] at hh
                  split at hh
                  · simp [err] at hh
                  · simp only [Except.ok.injEq, Prod.mk.injEq] at hh
                    obtain ⟨_, rfl, rfl, rfl⟩ := hh
                    right
                    split at hcb
                    · simp [err] at hcb
                    · have c1 : ¬ (u - l + 1 = 1) := by omega
                      have c2 : u - l + 1 > 0 := by omega
                      simp only [c1, c2, if_false, if_true] at hcb
                      exact constraintValue_nonempty _ _ _ _ hcb
              · simp only [hu64, if_false, Except.ok.injEq, Prod.mk.injEq] at hh
                obtain ⟨_, rfl, rfl, rfl⟩ := hh
                right
                split at hcb
                · simp [err] at hcb
                · have c1 : ¬ ((-1 : Int) = 1) := by decide
                  have c2 : ¬ ((-1 : Int) > 0) := by decide
                  simp only [c1, c2, if_false] at hcb
                  split at hcb
                  · simp [err] at hcb
                  · exact appendLength_nonempty _ _ _ _ hcb
        rw [← h]
        rcases key with k | k <;> simp [k]

theorem optBitmap_nonempty : ∀ (fields : List Field) (fs : List Val) (bm : Bits),
    optBitmap fields fs = .ok bm → (∃ fd ∈ fields, fd.params.optional = true) → bm ≠ [] := by
  intro fields
  induction fields with
  | nil => intro fs bm _ ⟨fd, hfd, _⟩; simp at hfd
  | cons fd frest ih =>
    intro fs bm h hex
    cases fs with
    | nil => simp [optBitmap, err] at h
    | cons v vs =>
      simp only [optBitmap] at h
      by_cases ho : fd.params.optional = true
      · simp only [ho, if_true] at h
        split at h
        · simp [Aper.panic] at h
        cases hr : optBitmap frest vs with
        | error e => rw [hr] at h; simp at h
        | ok b' =>
          rw [hr] at h
          simp only [Except.ok.injEq] at h
          rw [← h]; simp
      · simp only [ho, if_false, Bool.false_eq_true] at h
        split at h
        · simp [err] at h
        · obtain ⟨fd', hfd', ho'⟩ := hex
          rcases List.mem_cons.mp hfd' with rfl | hm
          · exact absurd ho' ho
          · exact ih vs bm h ⟨fd', hm, ho'⟩

theorem resolveRef_params (rfv : Ty → Val → Res Int) (allFields : List Field) (allVals : List Val) (i : Nat)
    (fd : Field) (fp : Params) (h : resolveRef rfv allFields allVals i fd = .ok fp) :
    fp = fd.params ∨ ∃ x, fp = { fd.params with refValue := x } := by
  unfold resolveRef at h
  split at h
  · split at h
    · simp [err] at h
    · split at h
      · split at h
        · simp at h
        · rename_i x _
          simp only [Except.ok.injEq] at h
          exact Or.inr ⟨some x, h.symm⟩
      · simp [err] at h
  · simp only [Except.ok.injEq] at h
    exact Or.inl h.symm

theorem encSeqFields_nonempty (f : Nat → Ty → Params → Val → Res Bits) (rfv : Ty → Val → Res Int)
    (allFields : List Field) (allVals : List Val) (P : Field → Prop)
    (hP : ∀ fd pos fp v a, P fd → (fp = fd.params ∨ ∃ x, fp = { fd.params with refValue := x }) →
      f pos fd.ty fp v = .ok a → a ≠ []) :
    ∀ (fields : List Field) (vals : List Val) (i pos : Nat) (b : Bits),
      encSeqFields f rfv allFields allVals i pos fields vals = .ok b →
      (∃ fd ∈ fields, fd.params.optional = false ∧ P fd) → b ≠ [] := by
  intro fields
  induction fields with
  | nil => intro vals i pos b _ ⟨fd, hfd, _⟩; simp at hfd
  | cons fd frest ih =>
    intro vals i pos b h hex
    cases vals with
    | nil => simp [encSeqFields, err] at h
    | cons v vrest =>
      simp only [encSeqFields] at h
      obtain ⟨fd', hfd', ho', hp'⟩ := hex
      by_cases hskip : fd.params.optional = true ∧ isNil v = true
      · simp only [hskip, and_self, if_true] at h
        rcases List.mem_cons.mp hfd' with rfl | hm
        · rw [ho'] at hskip; simp at hskip
        · exact ih vrest (i + 1) pos b h ⟨fd', hm, ho', hp'⟩
      · simp only [hskip, if_false] at h
        cases hres : resolveRef rfv allFields allVals i fd with
        | error e => rw [hres] at h; simp at h
        | ok fp =>
          rw [hres] at h
          dsimp only at h
          cases ha : f pos fd.ty fp v with
          | error e => rw [ha] at h; simp at h
          | ok a =>
            rw [ha] at h
            dsimp only at h
            cases hb : encSeqFields f rfv allFields allVals (i + 1) (pos + a.length) frest vrest with
            | error e => rw [hb] at h; simp at h
            | ok b' =>
              rw [hb] at h
              simp only [Except.ok.injEq] at h
              rw [← h]
              rcases List.mem_cons.mp hfd' with rfl | hm
              · have := hP fd' pos fp v a hp' (resolveRef_params _ _ _ _ _ _ hres) ha
                simp [this]
              · have := ih vrest (i + 1) (pos + a.length) b' hb ⟨fd', hm, ho', hp'⟩
                simp [this]

theorem nonEmptyEnc_refValue (env : Env) (x : Option Int) : ∀ (k : Nat) (ty : Ty) (p : Params),
    nonEmptyEnc env k ty { p with refValue := x } = nonEmptyEnc env k ty p := by
  intro k
  induction k with
  | zero => intro ty p; rfl
  | succ k ih =>
    intro ty p
    cases ty <;> try rfl
    · simp only [nonEmptyEnc]; exact ih _ p

/-- whatever the model writes for a type that passes `nonEmptyEnc` is at least one bit -/
theorem nonEmptyEnc_sound (env : Env) : ∀ (k fuel pos : Nat) (ty : Ty) (p : Params) (v : Val) (b : Bits),
    nonEmptyEnc env k ty p = true → encField env fuel pos ty p v = .ok b → b ≠ [] := by
  intro k
  induction k with
  | zero => intro fuel pos ty p v b hc; simp [nonEmptyEnc] at hc
  | succ k ih =>
    intro fuel pos ty p v b hc h
    cases fuel with
    | zero => simp [encField, hang] at h
    | succ fuel =>
      cases ty <;> cases v <;> try (simp [encField, err] at h; done)
      · -- INTEGER
        simp only [encField] at h
        simp only [nonEmptyEnc, Bool.or_eq_true] at hc
        exact appendInteger_nonempty _ _ _ _ _ _ hc h
      · -- ENUMERATED
        simp only [encField] at h
        simp only [nonEmptyEnc, Bool.or_eq_true] at hc
        exact appendEnumerated_nonempty _ _ _ _ _ _ hc h
      · simp only [encField] at h
        simp only [nonEmptyEnc] at hc
        exact appendBitString_nonempty _ _ _ _ _ _ _ hc h
      · simp only [encField] at h
        simp only [nonEmptyEnc] at hc
        exact appendOctetString_nonempty _ _ _ _ _ _ hc h
      · simp only [encField] at h
        simp only [nonEmptyEnc] at hc
        exact appendOctetString_nonempty _ _ _ _ _ _ hc h
      · simp only [encField, Except.ok.injEq] at h
        rw [← h]; simp
      · -- struct
        rename_i id fs
        simp only [encField] at h
        simp only [nonEmptyEnc, Bool.or_eq_true] at hc
        cases hsd : env[id]? with
        | none => rw [hsd] at h; simp [err] at h
        | some sd =>
          rw [hsd] at h hc
          dsimp only at h hc
          rcases hc with hc | hc
          · -- extension bit
            rw [hc] at h
            simp only [if_true] at h
            split at h
            · simp at h
            · simp only [Except.ok.injEq] at h; rw [← h]; simp
          · by_cases hch : isChoice sd = true
            · simp only [hch, Bool.not_true, Bool.false_eq_true, if_false] at h
              cases hb : encChoice (encField env fuel) sd p (pos + (if p.valueExt = true then [false] else [] : Bits).length) fs with
              | error e => rw [hb] at h; simp at h
              | ok body =>
                rw [hb] at h
                simp only [Except.ok.injEq] at h
                have hbody : body ≠ [] := by
                  unfold encChoice at hb
                  split at hb
                  · split at hb
                    · simp [err] at hb
                    · split at hb
                      · simp [err] at hb
                      · split at hb
                        · split at hb
                          · split at hb
                            · simp [err] at hb
                            · split at hb
                              · simp [err] at hb
                              · split at hb
                                · simp at hb
                                · unfold encOpenType at hb
                                  exact fragLoop_nonempty _ _ _ _ _ _ _ _ hb
                          · split at hb
                            · simp at hb
                            · rename_i ib hib
                              split at hb
                              · simp at hb
                              · simp only [Except.ok.injEq] at hb
                                unfold appendChoiceIndex at hib
                                split at hib
                                · simp [err] at hib
                                · split at hib
                                  · simp [err] at hib
                                  · split at hib
                                    · simp [err] at hib
                                    · have := constraintValue_nonempty _ _ _ _ hib
                                      rw [← hb]; simp [this]
                        · simp [err] at hb
                  · simp [err] at hb
                rw [← h]; simp [hbody]
            · simp only [hch, Bool.not_false, if_true, Bool.false_eq_true, if_false] at h hc
              cases hb : encSeq (encField env fuel) (refFieldValue env fuel) sd (pos + (if p.valueExt = true then [false] else [] : Bits).length) fs with
              | error e => rw [hb] at h; simp at h
              | ok body =>
                rw [hb] at h
                simp only [Except.ok.injEq] at h
                have hbody : body ≠ [] := by
                  unfold encSeq at hb
                  split at hb
                  · simp [err] at hb
                  · cases hbm : optBitmap sd.fields fs with
                    | error e => rw [hbm] at hb; simp at hb
                    | ok bm =>
                      rw [hbm] at hb
                      dsimp only at hb
                      cases hfl : encSeqFields (encField env fuel) (refFieldValue env fuel) sd.fields fs 0 (pos + (if p.valueExt = true then [false] else [] : Bits).length + bm.length) sd.fields fs with
                      | error e => rw [hfl] at hb; simp at hb
                      | ok fb =>
                        rw [hfl] at hb
                        simp only [Except.ok.injEq] at hb
                        rw [List.any_eq_true] at hc
                        obtain ⟨fd, hfd, hfdc⟩ := hc
                        by_cases ho : fd.params.optional = true
                        · have := optBitmap_nonempty _ _ _ hbm ⟨fd, hfd, ho⟩
                          rw [← hb]; simp [this]
                        · have hne : nonEmptyEnc env k fd.ty fd.params = true := by
                            simpa [ho] using hfdc
                          have := encSeqFields_nonempty (encField env fuel) (refFieldValue env fuel) sd.fields fs
                            (fun fd => nonEmptyEnc env k fd.ty fd.params = true)
                            (by
                              intro fd pos fp v a hp hfp ha
                              rcases hfp with rfl | ⟨x, rfl⟩
                              · exact ih fuel pos fd.ty _ v a hp ha
                              · exact ih fuel pos fd.ty _ v a (by rw [nonEmptyEnc_refValue]; exact hp) ha)
                            sd.fields fs 0 _ fb hfl ⟨fd, hfd, by simpa using ho, hne⟩
                          rw [← hb]; simp [this]
                rw [← h]; simp [hbody]
      · -- pointer
        simp only [encField] at h
        simp only [nonEmptyEnc] at hc
        exact ih fuel pos _ p _ b hc h
      · -- SEQUENCE OF
        simp only [encField] at h
        simp only [nonEmptyEnc] at hc
        exact encSlice_nonempty _ _ _ _ _ hc h

theorem specOK_field (env : Env) (hwf : specOK env = true) (id : Nat) (sd : StructDef) (hsd : env[id]? = some sd) :
    ∀ fd ∈ sd.fields, tyParamsOK env fd.ty fd.params = true := by
  unfold specOK at hwf
  rw [List.all_eq_true] at hwf
  have := hwf sd (List.mem_of_getElem? hsd)
  rw [List.all_eq_true] at this
  exact this

/-- **The encoder model writes what X.691 prescribes** (every schema that passes `specOK`, every type and parameter
    string that passes `tyParamsOK`, every regular value): if the model produces bits, they are the specification's. -/
theorem encode_eq_spec (env : Env) (hwf : specOK env = true) :
    ∀ (fuel pos : Nat) (ty : Ty) (params : Params) (v : Val) (bits : Bits),
      tyParamsOK env ty params = true → regular env fuel ty params.openType v = true →
      encField env fuel pos ty params v = .ok bits → Spec.X691.encode env fuel pos ty params v = some bits := by
  intro fuel
  induction fuel with
  | zero => intro pos ty params v bits _ _ h; simp [encField, hang] at h
  | succ fuel ih =>
    intro pos ty params v bits hok hreg h
    cases ty <;> cases v <;> try (simp [encField, err] at h; done)
    · -- INTEGER
      rename_i n
      simp only [encField] at h
      simp only [Spec.X691.encode]
      simp only [regular, Bool.and_eq_true, decide_eq_true_eq] at hreg
      exact integer_fwd pos n _ _ _ bits hok hreg.1 hreg.2 h
    · -- ENUMERATED
      rename_i n
      simp only [encField] at h
      simp only [Spec.X691.encode]
      exact enumerated_fwd pos n _ _ _ bits hok h
    · -- BIT STRING
      rename_i bytes len
      simp only [encField] at h
      simp only [Spec.X691.encode]
      simp only [regular, decide_eq_true_eq] at hreg
      have : ¬ bytes.length ≠ (len + 7) / 8 := by omega
      simp only [this, if_false]
      exact bit_string_fwd pos bytes len _ _ _ bits hok h
    · -- OCTET STRING
      rename_i b
      simp only [encField] at h
      simp only [Spec.X691.encode]
      exact octet_string_fwd pos b _ _ _ bits hok h
    · -- PrintableString
      rename_i b
      simp only [encField] at h
      simp only [Spec.X691.encode]
      exact octet_string_fwd pos b _ _ _ bits hok h
    · -- BOOLEAN
      rename_i b
      simp only [encField, Except.ok.injEq] at h
      simp only [Spec.X691.encode, h]
    · -- SEQUENCE / CHOICE / open type
      rename_i id fs
      simp only [encField] at h
      cases hsd : env[id]? with
      | none => rw [hsd] at h; simp [err] at h
      | some sd =>
        rw [hsd] at h
        dsimp only at h
        rw [encode_struct env fuel pos id params fs sd hsd]
        rw [regular_struct env fuel id _ fs sd hsd] at hreg
        simp only [tyParamsOK] at hok
        rw [structOK_eq env id params sd hsd] at hok
        have hfields := specOK_field env hwf id sd hsd
        by_cases hch : isChoice sd = true
        · simp only [hch, if_true, Bool.not_true, Bool.false_eq_true, if_false] at h hreg hok ⊢
          cases hb : encChoice (encField env fuel) sd params
              (pos + (if params.valueExt = true then [false] else [] : Bits).length) fs with
          | error e => rw [hb] at h; simp at h
          | ok body =>
            rw [hb] at h
            simp only [Except.ok.injEq] at h
            rw [← h]
            refine encChoice_fwd env fuel ih sd params _ _ fs body hfields ?_ hok hreg hb
            intro hot fd hfd alt inner hin
            simp only [choiceOK, hot, if_true] at hok
            rw [List.all_eq_true] at hok
            exact nonEmptyEnc_sound env 6 fuel 0 fd.ty fd.params alt inner (hok fd hfd) hin
        · simp only [hch, if_false, Bool.not_false, if_true, Bool.false_eq_true] at h hreg hok ⊢
          cases hb : encSeq (encField env fuel) (refFieldValue env fuel) sd
              (pos + (if params.valueExt = true then [false] else [] : Bits).length) fs with
          | error e => rw [hb] at h; simp at h
          | ok body =>
            rw [hb] at h
            simp only [Except.ok.injEq] at h
            rw [← h]
            exact encSeq_fwd env fuel (encField env fuel) (Spec.X691.encode env fuel) (refFieldValue env fuel)
              (Spec.X691.governor env fuel) (refFieldValue_fwd env fuel) ih sd _ _ fs body hfields hreg hb
    · -- pointer
      rename_i t v'
      simp only [encField] at h
      simp only [Spec.X691.encode]
      simp only [tyParamsOK] at hok
      simp only [regular] at hreg
      exact ih pos t params v' bits hok hreg h
    · -- SEQUENCE OF
      rename_i t vs
      simp only [encField] at h
      rw [encode_slice]
      simp only [tyParamsOK, Bool.and_eq_true] at hok
      simp only [regular, List.all_eq_true] at hreg
      unfold encSlice at h
      cases hh : sliceHeader params vs.length with
      | error e => rw [hh] at h; simp at h
      | ok t4 =>
        obtain ⟨pre, lb, ub, sr⟩ := t4
        rw [hh] at h
        dsimp only at h
        cases hc : sliceCountBits (pos + pre.length) vs.length lb ub sr with
        | error e => rw [hc] at h; simp at h
        | ok cb =>
          rw [hc] at h
          dsimp only at h
          cases he : encElems (fun p v => encField env fuel p t (stripSizeE params) v) (pos + pre.length + cb.length) vs with
          | error e => rw [he] at h; simp at h
          | ok eb =>
            rw [he] at h
            simp only [Except.ok.injEq] at h
            obtain ⟨lbS, ubS, hsc, hcnt⟩ := sliceHeader_fwd params vs.length (pos + pre.length) pre lb ub sr cb hok.1 hh hc
            rw [hsc]
            dsimp only
            rw [hcnt]
            dsimp only
            have hel := encElems_fwd (fun p v => encField env fuel p t (stripSizeE params) v)
              (fun p e => Spec.X691.encode env fuel p t (stripSizeE params) e) vs (pos + pre.length + cb.length) eb
              (fun v hv pos' b' hb' => ih pos' t (stripSizeE params) v b' hok.2 (hreg v hv) hb') he
            rw [hel]
            simp [h]

/-- what the specification does not encode, the model does not put on the wire -/
theorem encode_refuses (env : Env) (hwf : specOK env = true) (fuel pos : Nat) (ty : Ty) (params : Params) (v : Val)
    (hp : tyParamsOK env ty params = true) (hr : regular env fuel ty params.openType v = true)
    (hs : Spec.X691.encode env fuel pos ty params v = none) :
    ∀ bits, encField env fuel pos ty params v ≠ .ok bits := by
  intro bits h
  rw [encode_eq_spec env hwf fuel pos ty params v bits hp hr h] at hs
  cases hs

/-- the same at the level of `aper.MarshalWithParams` / a complete encoding (11.1) -/
theorem marshal_eq_spec (env : Env) (hwf : specOK env = true) (fuel : Nat) (ty : Ty) (params : Params) (v : Val) (bs : Bytes)
    (hp : tyParamsOK env ty params = true) (hr : regular env fuel ty params.openType v = true)
    (h : marshal env fuel ty params v = .ok bs) : Spec.X691.encodePdu env fuel ty params v = some bs := by
  unfold marshal at h
  unfold Spec.X691.encodePdu
  cases he : encField env fuel 0 ty params v with
  | error e => rw [he] at h; simp at h
  | ok bits =>
    rw [he] at h
    dsimp only at h
    rw [encode_eq_spec env hwf fuel 0 ty params v bits hp hr he]
    dsimp only
    split at h <;> rename_i hc
    · simp only [Except.ok.injEq] at h; simp [hc, h]
    · simp only [Except.ok.injEq] at h; simp [hc, h]

theorem marshal_refuses (env : Env) (hwf : specOK env = true) (fuel : Nat) (ty : Ty) (params : Params) (v : Val)
    (hp : tyParamsOK env ty params = true) (hr : regular env fuel ty params.openType v = true)
    (hs : Spec.X691.encodePdu env fuel ty params v = none) :
    ∀ bs, marshal env fuel ty params v ≠ .ok bs := by
  intro bs h
  rw [marshal_eq_spec env hwf fuel ty params v bs hp hr h] at hs
  cases hs

end Stgutg.Proofs.AperSpec
