/-
  C02 helper: the arguments the procedures after registration compute from the UE context `CreateUE` made — the number
  `strconv.Atoi(strings.Split(ue.Supi, "-")[1])` of UE `j` is the configured IMSI plus `j`.
-/
import Stgutg.Proofs.EmulatorLife
import Stgutg.Proofs.UeIdentity

namespace Stgutg.Proofs.EmulatorLifeArgs
open Stgutg Stgutg.Model.Emulator Stgutg.Model.UeIdentity Stgutg.Proofs.UeIdentity

theorem splitDash_go_nodash (cur s : Bytes) (h : ∀ c ∈ s, c ≠ 45) : splitDash.go cur s = [cur ++ s] := by
  induction s generalizing cur with
  | nil => simp [splitDash.go]
  | cons c rest ih =>
    have hc : c ≠ 45 := h c (by simp)
    simp only [splitDash.go, hc, if_false]
    rw [ih (cur ++ [c]) (fun x hx => h x (by simp [hx]))]
    simp

/-- `strings.Split("imsi-" + digits, "-")[1]` is the digit string -/
theorem supiInt_prefix (ds : Bytes) (h : ∀ c ∈ ds, isDigitByte c = true) : supiInt (imsiPrefix ++ ds) = some (atoi ds) := by
  have hnd : ∀ c ∈ ds, c ≠ 45 := by
    intro c hc e
    subst e
    exact absurd (digit_byte 45 (h 45 hc)) (by decide)
  have : splitDash (imsiPrefix ++ ds) = [[105, 109, 115, 105], ds] := by
    show splitDash.go [] (105 :: 109 :: 115 :: 105 :: 45 :: ds) = _
    simp [splitDash.go, splitDash_go_nodash [] ds hnd]
  simp [supiInt, this]

/-- **the SUPI number of UE `j`**: IMSI + j, no conversion error -/
theorem supiInt_created (cfg : Cfg) (hd : DecimalImsi cfg.imsi) (j : Nat) (hfit : decVal cfg.imsi + j < 10 ^ cfg.imsi.length) :
    supiInt (createUE cfg j).ctx.supi = some (((decVal cfg.imsi + j : Nat) : Int), false) := by
  have hs : (createUE cfg j).ctx.supi = imsiPrefix ++ decW cfg.imsi.length (decVal cfg.imsi + j) :=
    createUE_supi hd j hfit cfg.k cfg.opc cfg.op
  rw [hs, supiInt_prefix _ (decW_digits _ _)]
  have hD : DecimalImsi (decW cfg.imsi.length (decVal cfg.imsi + j)) :=
    ⟨decW_digits _ _, by rw [decW_length]; exact hd.nonempty, by rw [decW_length]; exact hd.short⟩
  rw [atoi_decimal hD, decVal_decW, Nat.mod_eq_of_lt hfit]

/-- the number is in the range where `pduId := (supiInt+14)%15 + 1` does not wrap -/
theorem supi_range (cfg : Cfg) (hd : DecimalImsi cfg.imsi) (j : Nat) (hfit : decVal cfg.imsi + j < 10 ^ cfg.imsi.length) :
    (0 : Int) ≤ ((decVal cfg.imsi + j : Nat) : Int) ∧ ((decVal cfg.imsi + j : Nat) : Int) + 14 < 2 ^ 63 := by
  have h18 := hd.short
  have h10 : 10 ^ cfg.imsi.length ≤ 10 ^ 18 := Nat.pow_le_pow_right (by omega) h18
  have : (10 : Nat) ^ 18 + 14 < 2 ^ 63 := by decide
  constructor <;> omega

/-- the RAN-UE-NGAP-ID `CreateUE` assigns is in the range of the NGAP type -/
theorem ran_range (cfg : Cfg) (hd : DecimalImsi cfg.imsi) (j : Nat) (hj : j < 2 ^ 62) :
    0 ≤ (createUE cfg j).ctx.ranUeNgapId ∧ (createUE cfg j).ctx.ranUeNgapId < 2 ^ 32 := by
  have hran : (createUE cfg j).ctx.ranUeNgapId = (((decVal cfg.imsi + j) % 10000 : Nat) : Int) :=
    createUE_ranId hd j hj cfg.k cfg.opc cfg.op
  rw [hran]
  constructor <;> omega

/-- the PDU session identity the three procedures compute from the SUPI number, as a natural number `psi` in 1..15:
    `uint8(pduId)` is `psi`, the `int64` argument of the NGAP wrappers is its cast -/
theorem psi_facts (n : Int) (h0 : 0 ≤ n) (h63 : n + 14 < 2 ^ 63) :
    ∃ psi : Nat, psi8 (pduIdOf n) = UInt8.ofNat psi ∧ (psi : Int) = pduIdOf n ∧ 1 ≤ psi ∧ psi ≤ 15 := by
  have hw : wrap64 (n + 14) = n + 14 := by unfold wrap64; omega
  have e : pduIdOf n = (n + 14) % 15 + 1 := by
    unfold pduIdOf; rw [hw, Int.tmod_eq_emod_of_nonneg (by omega)]
  refine ⟨(pduIdOf n).toNat, ?_, by omega, by omega, by omega⟩
  unfold psi8; rw [Int.emod_eq_of_lt (by omega) (by omega)]

end Stgutg.Proofs.EmulatorLifeArgs
