/-
  C04 helper lemmas: fragmented lengths (X.691 11.9.3.8). The decoder loops `parseOctetStringLoop`, `parseBitStringLoop`
  and `openTypeOctets` read back, for EVERY length, what the fragmentation loop of the encoder wrote. The encoder side is
  taken through its normal form `Spec.X691.lengthAndItems` (`Proofs.AperSpec.fragLoop_unc`).
-/
import Stgutg.Proofs.AperRT
import Stgutg.Proofs.AperRTCompBits
import Stgutg.Proofs.AperSpec

namespace Stgutg.Proofs.AperRT
open Stgutg Stgutg.Aper Stgutg.Proofs.Bits Stgutg.Proofs.AperRTComp
open Stgutg.Spec.X691 (pad lengthAndItems)

/-- `D.get` sees a reader that holds at least the bits the statement is about -/
theorem RT_get_len {α : Type} (bits : Bits) (pos : Nat) (k : Rd → D α) (a : α)
    (h : ∀ r, bits.length ≤ r.len → RT bits pos (k r) a) : RT bits pos (D.get >>= k) a := by
  intro tail ht
  rw [D_bind_apply]
  exact h (mkRd (bits ++ tail) pos) (by simp [mkRd]) tail ht

theorem bytesToBits_inj (a b : Bytes) (h : bytesToBits a = bytesToBits b) : a = b := by
  have := congrArg bitsToBytes h
  rwa [bitsToBytes_bytesToBits, bitsToBytes_bytesToBits] at this

/-- packing distributes over a whole number of octets -/
theorem bitsToBytes_append_aligned (a b : Bits) (h : a.length % 8 = 0) :
    bitsToBytes (a ++ b) = bitsToBytes a ++ bitsToBytes b := by
  apply bytesToBits_inj
  rw [bytesToBits_append, bytesToBits_bitsToBytes (a ++ b), bytesToBits_bitsToBytes_aligned a h, bytesToBits_bitsToBytes b]
  have : padLen (a ++ b).length = padLen b.length := by
    rw [List.length_append]; unfold padLen; omega
  rw [this, List.append_assoc]

theorem bytesToBits_take (bs : Bytes) : ∀ k, (bytesToBits bs).take (8 * k) = bytesToBits (bs.take k) := by
  induction bs with
  | nil => intro k; simp [bytesToBits]
  | cons b bs ih =>
    intro k
    cases k with
    | zero => simp [bytesToBits]
    | succ k =>
      rw [bytesToBits_cons, List.take_succ_cons, bytesToBits_cons]
      have e : 8 * (k + 1) = (byteBits b).length + 8 * k := by rw [byteBits_length]; omega
      rw [e, List.take_append, List.take_of_length_le (Nat.le_add_right _ _), Nat.add_sub_cancel_left, ih k]

theorem bytesToBits_drop (bs : Bytes) : ∀ k, (bytesToBits bs).drop (8 * k) = bytesToBits (bs.drop k) := by
  induction bs with
  | nil => intro k; simp [bytesToBits]
  | cons b bs ih =>
    intro k
    cases k with
    | zero => simp
    | succ k =>
      rw [bytesToBits_cons, List.drop_succ_cons]
      have e : 8 * (k + 1) = (byteBits b).length + 8 * k := by rw [byteBits_length]; omega
      rw [e, List.drop_append, List.drop_of_length_le (Nat.le_add_right _ _), Nat.add_sub_cancel_left, ih k,
        List.nil_append]

theorem fragHeader_facts : ∀ m : Fin 5, 1 ≤ m.val →
    natToBits 8 (192 + m.val) = [true, true] ++ natToBits 6 m.val ∧ (192 + m.val) &&& 128 ≠ 0 ∧
    (192 + m.val) &&& 64 ≠ 0 ∧ (192 + m.val) &&& 63 = m.val := by decide

/-- the fragment header `11mmmmmm`, octet-aligned: m·16K items follow and another length after them -/
theorem RT_fragHeader (pos m : Nat) (hm1 : 1 ≤ m) (hm4 : m ≤ 4) :
    RT (alignBits pos ++ [true, true] ++ natToBits 6 m) pos (parseLength (-1)) (16384 * m, true) := by
  obtain ⟨f1, f2, f3, f4⟩ := fragHeader_facts ⟨m, by omega⟩ hm1
  simp only at f1 f2 f3 f4
  unfold parseLength
  have c : ¬ ((-1 : Int) ≤ 65536 ∧ (-1 : Int) > 0) := by decide
  simp only [c, if_false]
  rw [List.append_assoc]
  refine RT_seq (RT_align pos) ?_
  rw [← f1]
  have hg := RT_getBitsValue 8 (192 + m) (pos + (alignBits pos).length) (by decide) (by omega) (by omega)
  have := RT_bind (f := fun first => (if first &&& 128 = 0 then pure (first &&& 0x7f, false)
      else if first &&& 64 = 0 then do
        let second ← getBitsValue 8
        pure (((first &&& 63) <<< 8) ||| second, false)
      else
        let k := first &&& 63
        if k < 1 ∨ k > 4 then D.fail .error else pure (16384 * k, true) : D (Nat × Bool))) hg
    (c := (16384 * m, true)) (b2 := []) (by
      have c1 : ¬ (m < 1 ∨ m > 4) := by omega
      simp only [f2, f3, if_false, f4, c1]
      exact RT_pure _ _)
  rw [List.append_nil] at this
  exact this

/-- 17.8 with 11.9.3.5–8: the OCTET STRING loop reads back a general length and its octets, fragmented or not -/
theorem RT_octItems : ∀ (f pos : Nat) (bs acc : Bytes) (g : Nat), bs.length / 16384 + 1 ≤ f → f ≤ g →
    RT (lengthAndItems 8 f pos bs.length (bytesToBits bs)) pos (parseOctetStringLoop (-1) 0 g acc) (acc ++ bs) := by
  intro f
  induction f with
  | zero => intro pos bs acc g h; omega
  | succ f ih =>
    intro pos bs acc g hf hg
    obtain ⟨g', rfl⟩ : ∃ g', g = g' + 1 := ⟨g - 1, by omega⟩
    by_cases hn : bs.length < 16384
    · -- a single length, then the octets
      have hL := AperSpec.length_unc pos (-1) bs.length hn (by omega)
      have hpl := RT_length pos (-1) bs.length _ hn hL
      have hshape : (if bs.length < 128 then pad pos ++ natToBits 8 bs.length
            else pad pos ++ [true, false] ++ natToBits 14 bs.length) =
          pad pos ++ (if bs.length < 128 then natToBits 8 bs.length else [true, false] ++ natToBits 14 bs.length) := by
        split <;> simp
      rw [hshape] at hpl
      unfold lengthAndItems parseOctetStringLoop
      simp only [hn, if_true]
      have hraw : (((bs.length : Nat) : Int) + 0).toNat = bs.length := by omega
      by_cases h0 : bs.length = 0
      · have hb : bs = [] := List.length_eq_zero_iff.mp h0
        subst hb
        simp only [List.length_nil, if_true] at hpl ⊢
        have := RT_bind (f := fun (x : Nat × Bool) =>
            (match x with
            | (len, rep) =>
              if ((len : Int) + 0).toNat = 0 then pure acc
              else do
                parseAlignBits
                let b ← takeOctets ((len : Int) + 0).toNat
                if rep then parseOctetStringLoop (-1) 0 g' (acc ++ b) else pure (acc ++ b) : D Bytes))
          hpl (c := acc ++ []) (b2 := []) (by
            dsimp only
            simp only [Int.add_zero, Int.toNat_natCast, if_true]
            rw [List.append_nil]
            exact RT_pure _ _)
        rw [List.append_nil] at this
        exact this
      · simp only [h0, if_false]
        rw [List.append_assoc]
        refine RT_bind hpl ?_
        dsimp only
        rw [hraw]
        simp only [h0, if_false]
        refine RT_seq (RT_align _) ?_
        rw [← List.append_nil (bytesToBits bs)]
        refine RT_bind (RT_takeOctets _ bs) ?_
        simp only [Bool.false_eq_true, if_false]
        exact RT_pure _ _
    · -- a fragment of m·16K octets, then the rest
      have hge : 16384 ≤ bs.length := by omega
      unfold lengthAndItems parseOctetStringLoop
      simp only [hn, if_false]
      have hm1 : 1 ≤ min 4 (bs.length / 16384) := by omega
      have hm4 : min 4 (bs.length / 16384) ≤ 4 := by omega
      have hmn : min 4 (bs.length / 16384) * 16384 ≤ bs.length := by omega
      generalize min 4 (bs.length / 16384) = m at hm1 hm4 hmn
      rw [List.append_assoc, List.append_assoc]
      simp only [AperSpec.pad_eq]
      refine RT_bind (RT_fragHeader pos m hm1 hm4) ?_
      dsimp only
      have hraw : (((16384 * m : Nat) : Int) + 0).toNat = 16384 * m := by omega
      rw [hraw]
      have hne : ¬ (16384 * m = 0) := by omega
      simp only [hne, if_false, if_true]
      refine RT_seq (RT_align _) ?_
      have e1 : m * 16384 * 8 = 8 * (16384 * m) := by omega
      rw [e1, bytesToBits_take, bytesToBits_drop]
      have htl : (bs.take (16384 * m)).length = 16384 * m := by
        rw [List.length_take]; omega
      have hoct := RT_takeOctets
        (pos + (alignBits pos ++ [true, true] ++ natToBits 6 m).length +
          (alignBits (pos + (alignBits pos ++ [true, true] ++ natToBits 6 m).length)).length) (bs.take (16384 * m))
      rw [htl] at hoct
      refine RT_bind hoct ?_
      have hdl : (bs.drop (16384 * m)).length = bs.length - m * 16384 := by
        rw [List.length_drop]; omega
      have hrec := ih (pos + (alignBits pos ++ [true, true] ++ natToBits 6 m).length +
          (alignBits (pos + (alignBits pos ++ [true, true] ++ natToBits 6 m).length)).length +
          (bytesToBits (bs.take (16384 * m))).length) (bs.drop (16384 * m)) (acc ++ bs.take (16384 * m)) g'
        (by rw [hdl]; omega) (by omega)
      rw [hdl] at hrec
      have e : acc ++ bs.take (16384 * m) ++ bs.drop (16384 * m) = acc ++ bs := by
        rw [List.append_assoc, List.take_append_drop]
      rw [e] at hrec
      exact hrec

theorem RT_align_aligned (p : Nat) (h : p % 8 = 0) : RT [] p parseAlignBits () := by
  have := RT_align p
  rw [AperSpec.alignBits_aligned p h] at this
  exact this

/-- 11.2 with 11.9.3.5–8: the open-type loop reads back a general length and its octets, fragmented or not -/
theorem RT_openItems : ∀ (f pos : Nat) (bs acc : Bytes) (g : Nat), bs.length / 16384 + 1 ≤ f → f ≤ g →
    RT (lengthAndItems 8 f pos bs.length (bytesToBits bs)) pos (openTypeOctets g acc) (acc ++ bs) := by
  intro f
  induction f with
  | zero => intro pos bs acc g h; omega
  | succ f ih =>
    intro pos bs acc g hf hg
    obtain ⟨g', rfl⟩ : ∃ g', g = g' + 1 := ⟨g - 1, by omega⟩
    by_cases hn : bs.length < 16384
    · have hL := AperSpec.length_unc pos (-1) bs.length hn (by omega)
      have hpl := RT_length pos (-1) bs.length _ hn hL
      have hshape : (if bs.length < 128 then pad pos ++ natToBits 8 bs.length
            else pad pos ++ [true, false] ++ natToBits 14 bs.length) =
          pad pos ++ (if bs.length < 128 then natToBits 8 bs.length else [true, false] ++ natToBits 14 bs.length) := by
        split <;> simp
      rw [hshape] at hpl
      unfold lengthAndItems openTypeOctets
      simp only [hn, if_true]
      by_cases h0 : bs.length = 0
      · have hb : bs = [] := List.length_eq_zero_iff.mp h0
        subst hb
        simp only [List.length_nil, if_true] at hpl ⊢
        have := RT_bind (f := fun (x : Nat × Bool) =>
            (match x with
            | (rawLength, rep) =>
              if rawLength = 0 then pure acc
              else do
                parseAlignBits
                let b ← takeOctets rawLength
                if rep then openTypeOctets g' (acc ++ b)
                else do
                  parseAlignBits
                  pure (acc ++ b) : D Bytes))
          hpl (c := acc ++ []) (b2 := []) (by
            dsimp only
            simp only [if_true]
            rw [List.append_nil]
            exact RT_pure _ _)
        rw [List.append_nil] at this
        exact this
      · simp only [h0, if_false]
        generalize (pad pos ++ if bs.length < 128 then natToBits 8 bs.length
          else [true, false] ++ natToBits 14 bs.length) = hdr at hpl ⊢
        rw [List.append_assoc]
        refine RT_bind hpl ?_
        dsimp only
        simp only [h0, if_false, AperSpec.pad_eq]
        refine RT_seq (RT_align _) ?_
        rw [← List.append_nil (bytesToBits bs)]
        refine RT_bind (RT_takeOctets _ bs) ?_
        simp only [Bool.false_eq_true, if_false]
        rw [← List.append_nil ([] : Bits)]
        refine RT_seq (RT_align_aligned _ ?_) (RT_pure _ _)
        have := AperSpec.aligned_after (pos + hdr.length)
        rw [bytesToBits_length]
        omega
    · have hge : 16384 ≤ bs.length := by omega
      unfold lengthAndItems openTypeOctets
      simp only [hn, if_false]
      have hm1 : 1 ≤ min 4 (bs.length / 16384) := by omega
      have hm4 : min 4 (bs.length / 16384) ≤ 4 := by omega
      have hmn : min 4 (bs.length / 16384) * 16384 ≤ bs.length := by omega
      generalize min 4 (bs.length / 16384) = m at hm1 hm4 hmn
      rw [List.append_assoc, List.append_assoc]
      simp only [AperSpec.pad_eq]
      refine RT_bind (RT_fragHeader pos m hm1 hm4) ?_
      dsimp only
      have hne : ¬ (16384 * m = 0) := by omega
      simp only [hne, if_false, if_true]
      refine RT_seq (RT_align _) ?_
      have e1 : m * 16384 * 8 = 8 * (16384 * m) := by omega
      rw [e1, bytesToBits_take, bytesToBits_drop]
      have htl : (bs.take (16384 * m)).length = 16384 * m := by
        rw [List.length_take]; omega
      have hoct := RT_takeOctets
        (pos + (alignBits pos ++ [true, true] ++ natToBits 6 m).length +
          (alignBits (pos + (alignBits pos ++ [true, true] ++ natToBits 6 m).length)).length) (bs.take (16384 * m))
      rw [htl] at hoct
      refine RT_bind hoct ?_
      have hdl : (bs.drop (16384 * m)).length = bs.length - m * 16384 := by
        rw [List.length_drop]; omega
      have hrec := ih (pos + (alignBits pos ++ [true, true] ++ natToBits 6 m).length +
          (alignBits (pos + (alignBits pos ++ [true, true] ++ natToBits 6 m).length)).length +
          (bytesToBits (bs.take (16384 * m))).length) (bs.drop (16384 * m)) (acc ++ bs.take (16384 * m)) g'
        (by rw [hdl]; omega) (by omega)
      rw [hdl] at hrec
      have e : acc ++ bs.take (16384 * m) ++ bs.drop (16384 * m) = acc ++ bs := by
        rw [List.append_assoc, List.take_append_drop]
      rw [e] at hrec
      exact hrec

/-- 16.11 with 11.9.3.5–8: the BIT STRING loop reads back a general length and its bits, fragmented or not -/
theorem RT_bitItems : ∀ (f pos : Nat) (content : Bits) (accB : Bytes) (accL g : Nat),
    content.length / 16384 + 1 ≤ f → f ≤ g →
    RT (lengthAndItems 1 f pos content.length content) pos (parseBitStringLoop (-1) 0 g accB accL)
      (accB ++ bitsToBytes content, accL + content.length) := by
  intro f
  induction f with
  | zero => intro pos content accB accL g h; omega
  | succ f ih =>
    intro pos content accB accL g hf hg
    obtain ⟨g', rfl⟩ : ∃ g', g = g' + 1 := ⟨g - 1, by omega⟩
    by_cases hn : content.length < 16384
    · have hL := AperSpec.length_unc pos (-1) content.length hn (by omega)
      have hpl := RT_length pos (-1) content.length _ hn hL
      have hshape : (if content.length < 128 then pad pos ++ natToBits 8 content.length
            else pad pos ++ [true, false] ++ natToBits 14 content.length) =
          pad pos ++ (if content.length < 128 then natToBits 8 content.length else [true, false] ++ natToBits 14 content.length) := by
        split <;> simp
      rw [hshape] at hpl
      unfold lengthAndItems parseBitStringLoop
      simp only [hn, if_true]
      have hraw : (((content.length : Nat) : Int) + 0).toNat = content.length := by omega
      by_cases h0 : content.length = 0
      · have hb : content = [] := List.length_eq_zero_iff.mp h0
        subst hb
        simp only [List.length_nil, if_true] at hpl ⊢
        have := RT_bind (f := fun (x : Nat × Bool) =>
            (if ((x.1 : Int) + 0).toNat = 0 then pure (accB, accL)
              else do
                parseAlignBits
                let r ← D.get
                if 8 * ((((x.1 : Int) + 0).toNat + 7) / 8) > r.len then D.fail .error
                else do
                  let b ← getBits ((x.1 : Int) + 0).toNat
                  if x.2 = true then parseBitStringLoop (-1) 0 g' (accB ++ bitsToBytes b) (accL + ((x.1 : Int) + 0).toNat)
                  else pure (accB ++ bitsToBytes b, accL + ((x.1 : Int) + 0).toNat) : D (Bytes × Nat)))
          hpl (c := (accB ++ bitsToBytes [], accL + 0)) (b2 := []) (by
            dsimp only
            simp only [Int.add_zero, Int.toNat_natCast, if_true]
            have : bitsToBytes [] = [] := rfl
            rw [this, List.append_nil, Nat.add_zero]
            exact RT_pure _ _)
        rw [List.append_nil] at this
        exact this
      · simp only [h0, if_false]
        rw [List.append_assoc]
        refine RT_bind hpl ?_
        dsimp only
        rw [hraw]
        simp only [h0, if_false]
        refine RT_seq (RT_align _) ?_
        have hal := AperSpec.aligned_after (pos + (pad pos ++ if content.length < 128 then natToBits 8 content.length
          else [true, false] ++ natToBits 14 content.length).length)
        have := RT_checkedBits _ content
          (fun b => (if false = true then parseBitStringLoop (-1) 0 g' (accB ++ bitsToBytes b) (accL + content.length)
            else pure (accB ++ bitsToBytes b, accL + content.length) : D (Bytes × Nat)))
          (accB ++ bitsToBytes content, accL + content.length) [] h0 hal (by
            simp only [Bool.false_eq_true, if_false]
            exact RT_pure _ _)
        rw [List.append_nil] at this
        exact this
    · have hge : 16384 ≤ content.length := by omega
      unfold lengthAndItems parseBitStringLoop
      simp only [hn, if_false]
      have hm1 : 1 ≤ min 4 (content.length / 16384) := by omega
      have hm4 : min 4 (content.length / 16384) ≤ 4 := by omega
      have hmn : min 4 (content.length / 16384) * 16384 ≤ content.length := by omega
      generalize min 4 (content.length / 16384) = m at hm1 hm4 hmn
      rw [List.append_assoc, List.append_assoc]
      simp only [AperSpec.pad_eq]
      refine RT_bind (RT_fragHeader pos m hm1 hm4) ?_
      dsimp only
      have hraw : (((16384 * m : Nat) : Int) + 0).toNat = 16384 * m := by omega
      rw [hraw]
      have hne : ¬ (16384 * m = 0) := by omega
      simp only [hne, if_false, if_true]
      refine RT_seq (RT_align _) ?_
      have hfl : (content.take (m * 16384 * 1)).length = 16384 * m := by
        rw [List.length_take]; omega
      have hal := AperSpec.aligned_after (pos + (alignBits pos ++ [true, true] ++ natToBits 6 m).length)
      have hdl : (content.drop (m * 16384 * 1)).length = content.length - m * 16384 := by
        rw [List.length_drop]; omega
      have hrec := ih (pos + (alignBits pos ++ [true, true] ++ natToBits 6 m).length +
          (alignBits (pos + (alignBits pos ++ [true, true] ++ natToBits 6 m).length)).length +
          (content.take (m * 16384 * 1)).length) (content.drop (m * 16384 * 1))
          (accB ++ bitsToBytes (content.take (m * 16384 * 1))) (accL + 16384 * m) g'
        (by rw [hdl]; omega) (by omega)
      rw [hdl] at hrec
      have e : accB ++ bitsToBytes (content.take (m * 16384 * 1)) ++ bitsToBytes (content.drop (m * 16384 * 1)) =
          accB ++ bitsToBytes content := by
        rw [List.append_assoc, ← bitsToBytes_append_aligned _ _ (by rw [hfl]; omega), List.take_append_drop]
      have e2 : accL + 16384 * m + (content.length - m * 16384) = accL + content.length := by omega
      rw [e, e2] at hrec
      rw [← hfl]
      exact RT_checkedBits _ (content.take (m * 16384 * 1))
        (fun b => (if true = true then parseBitStringLoop (-1) 0 g' (accB ++ bitsToBytes b) (accL + (content.take (m * 16384 * 1)).length)
          else pure (accB ++ bitsToBytes b, accL + (content.take (m * 16384 * 1)).length) : D (Bytes × Nat)))
        _ _ (by rw [hfl]; omega) hal (by
          simp only [if_true]
          rw [hfl]
          rw [hfl] at hrec
          exact hrec)

theorem lengthAndItems_length (unit : Nat) : ∀ (f pos n : Nat) (items : Bits), items.length = n * unit →
    n / 16384 + 1 ≤ f → items.length ≤ (lengthAndItems unit f pos n items).length := by
  intro f
  induction f with
  | zero => intro pos n items _ h; omega
  | succ f ih =>
    intro pos n items hl hf
    unfold lengthAndItems
    by_cases hn : n < 16384
    · simp only [hn, if_true]
      by_cases h0 : n = 0
      · subst h0; simp at hl; simp [hl]
      · simp only [h0, if_false, List.length_append]; omega
    · simp only [hn, if_false]
      have hm1 : 1 ≤ min 4 (n / 16384) := by omega
      have hmn : min 4 (n / 16384) * 16384 ≤ n := by omega
      generalize min 4 (n / 16384) = m at hm1 hmn
      have hdl : (items.drop (m * 16384 * unit)).length = (n - m * 16384) * unit := by
        rw [List.length_drop, hl, Nat.sub_mul]
      have := ih (pos + (pad pos ++ [true, true] ++ natToBits 6 m).length +
          (pad (pos + (pad pos ++ [true, true] ++ natToBits 6 m).length)).length +
          (items.take (m * 16384 * unit)).length) (n - m * 16384) (items.drop (m * 16384 * unit)) hdl (by omega)
      have htd : (items.take (m * 16384 * unit)).length + (items.drop (m * 16384 * unit)).length = items.length := by
        rw [← List.length_append, List.take_append_drop]
      simp only [List.length_append] at this ⊢
      omega

/-- what the round trip asks of the size constraint of a string in addition to `SizedParamsOK`, so that a length of
    16K or more is always a general length with lower bound 0 (then the library's loop fragments as X.691 does):
    SIZE(lb..MAX) only with lb = 0, and a constrained size (ub < 64K) ends below 16K -/
def FragParamsOK (params : Params) : Prop :=
  (params.sizeUB = none → params.sizeLB = none ∨ params.sizeLB = some 0) ∧
  (∀ u, params.sizeUB = some u → u ≤ 65535 → u < 16384)

/-- a string of 16K items or more is coded with a general length and lower bound 0 -/
theorem sizePreamble_big (len : Nat) (params : Params) (pre : Bits) (lb ub sr : Int) (hfrag : FragParamsOK params)
    (hlen : 16384 ≤ len)
    (h : sizePreamble len params.sizeExt params.sizeLB params.sizeUB = .ok (pre, lb, ub, sr)) : sr = -1 ∧ lb = 0 := by
  obtain ⟨hA, hB⟩ := hfrag
  unfold sizePreamble at h
  cases hl : params.sizeLB with
  | none =>
    rw [hl] at h
    simp only [Except.ok.injEq, Prod.mk.injEq] at h
    omega
  | some l =>
    rw [hl] at h
    cases hu : params.sizeUB with
    | none =>
      rw [hu] at h
      simp only [Except.ok.injEq, Prod.mk.injEq] at h
      rcases hA hu with h1 | h1
      · rw [hl] at h1; cases h1
      · rw [hl] at h1; simp only [Option.some.injEq] at h1; omega
    | some u =>
      rw [hu] at h
      dsimp only at h
      have hB' := hB u hu
      split at h
      · split at h
        · simp [err] at h
        · simp only [Except.ok.injEq, Prod.mk.injEq] at h
          obtain ⟨_, h2, _, h4⟩ := h
          by_cases hbig : u > 65535
          · simp only [hbig, if_true] at h2 h4; omega
          · omega
      · split at h
        · simp [err] at h
        · simp only [Except.ok.injEq, Prod.mk.injEq] at h; omega

/-- OCTET STRING / PrintableString body, EVERY length: `parseOctetString` reads back what `appendOctetString` wrote
    (16K octets or more: fragments, X.691 11.9.3.8) -/
theorem RT_octetString_any (pos : Nat) (bytes : Bytes) (params : Params) (bits : Bits)
    (hok : SizedParamsOK params) (hfrag : FragParamsOK params) (hv : params.valueExt = false)
    (h : appendOctetString pos bytes params.sizeExt params.sizeLB params.sizeUB = .ok bits) :
    RT bits pos (extBits params false >>= fun x => parseOctetString x.1 params.sizeLB params.sizeUB) bytes := by
  by_cases hlen : bytes.length < 16384
  · exact RT_octetString pos bytes params bits hok hlen hv h
  · obtain ⟨hext, hpair, hlbnn, hfix⟩ := hok
    unfold appendOctetString at h
    cases hsp : sizePreamble bytes.length params.sizeExt params.sizeLB params.sizeUB with
    | error e => rw [hsp] at h; simp at h
    | ok t =>
      obtain ⟨pre, lb, ub, sr⟩ := t
      rw [hsp] at h
      dsimp only at h
      obtain ⟨se, hpre, hse, hb1, hb3, hb2⟩ := sizePreamble_spec _ _ _ _ pre lb ub sr hext hpair hsp
      have hx := RT_extBits_sized pos params false se (by simp [hv]) hse
      rw [← hpre] at hx
      obtain ⟨hsr, hlb⟩ := sizePreamble_big bytes.length params pre lb ub sr hfrag (by omega) hsp
      subst hsr hlb
      have c1 : ¬ ((-1 : Int) = 1) := by decide
      have c2 : ¬ ((bytes.length : Int) < 0) := by omega
      simp only [c1, c2, if_false, Int.toNat_zero, Nat.sub_zero] at h
      rw [AperSpec.fragLoop_unc 8 (by decide) (bytes.length / 16384 + 1) _ bytes.length (bytesToBits bytes)
        (by rw [bytesToBits_length]; omega) (Nat.le_refl _)] at h
      simp only [Except.ok.injEq] at h
      rw [← h]
      refine RT_bind hx ?_
      dsimp only
      unfold parseOctetString
      generalize hsb : sizeBounds se params.sizeLB params.sizeUB = sb at hb1 hb2 hb3
      obtain ⟨lb', ub', sr'⟩ := sb
      simp only at hb1 hb3
      subst hb1 hb3
      dsimp only
      simp only [c1, if_false]
      apply RT_get_len
      intro r hr
      have hge := lengthAndItems_length 8 (bytes.length / 16384 + 1) (pos + pre.length) bytes.length (bytesToBits bytes)
        (by rw [bytesToBits_length]; omega) (Nat.le_refl _)
      rw [bytesToBits_length] at hge
      exact RT_octItems (bytes.length / 16384 + 1) (pos + pre.length) bytes [] (r.len + 2) (Nat.le_refl _) (by omega)

/-- BIT STRING body, EVERY length -/
theorem RT_bitString_any (pos : Nat) (bytes : Bytes) (len : Nat) (params : Params) (bits : Bits)
    (hok : SizedParamsOK params) (hfrag : FragParamsOK params) (hv : params.valueExt = false)
    (h : appendBitString pos bytes len params.sizeExt params.sizeLB params.sizeUB = .ok bits) :
    RT bits pos (extBits params false >>= fun x => parseBitString x.1 params.sizeLB params.sizeUB)
      (bitsToBytes ((bytesToBits bytes).take len), len) := by
  by_cases hlen : len < 16384
  · exact RT_bitString pos bytes len params bits hok hlen hv h
  · obtain ⟨hext, hpair, hlbnn, hfix⟩ := hok
    unfold appendBitString at h
    split at h
    · simp [Aper.panic] at h
    · rename_i hbl
      have hclen : ((bytesToBits bytes).take len).length = len := by
        rw [List.length_take, bytesToBits_length]; omega
      generalize hcontent : (bytesToBits bytes).take len = content at h hclen ⊢
      cases hsp : sizePreamble len params.sizeExt params.sizeLB params.sizeUB with
      | error e => rw [hsp] at h; simp at h
      | ok t =>
        obtain ⟨pre, lb, ub, sr⟩ := t
        rw [hsp] at h
        dsimp only at h
        obtain ⟨se, hpre, hse, hb1, hb3, hb2⟩ := sizePreamble_spec _ _ _ _ pre lb ub sr hext hpair hsp
        have hx := RT_extBits_sized pos params false se (by simp [hv]) hse
        rw [← hpre] at hx
        obtain ⟨hsr, hlb⟩ := sizePreamble_big len params pre lb ub sr hfrag (by omega) hsp
        subst hsr hlb
        have c1 : ¬ ((-1 : Int) = 1) := by decide
        have c2 : ¬ ((len : Int) < 0) := by omega
        simp only [c1, c2, if_false, Int.toNat_zero, Nat.sub_zero] at h
        rw [AperSpec.fragLoop_unc 1 (by decide) (len / 16384 + 1) _ len content (by omega) (Nat.le_refl _)] at h
        simp only [Except.ok.injEq] at h
        rw [← h]
        refine RT_bind hx ?_
        dsimp only
        unfold parseBitString
        generalize hsb : sizeBounds se params.sizeLB params.sizeUB = sb at hb1 hb2 hb3
        obtain ⟨lb', ub', sr'⟩ := sb
        simp only at hb1 hb3
        subst hb1 hb3
        dsimp only
        simp only [c1, if_false]
        apply RT_get_len
        intro r hr
        have hge := lengthAndItems_length 1 (len / 16384 + 1) (pos + pre.length) len content (by omega) (Nat.le_refl _)
        have := RT_bitItems (len / 16384 + 1) (pos + pre.length) content [] 0 (r.len + 2)
          (by rw [hclen]) (by omega)
        rw [hclen] at this
        simpa using this

/-! ### leaf level of parseField, every length -/

theorem RT_leaf_octs_any (pos : Nat) (bytes : Bytes) (params : Params) (bits : Bits)
    (hok : SizedParamsOK params) (hfrag : FragParamsOK params) (hv : params.valueExt = false)
    (h : appendOctetString pos bytes params.sizeExt params.sizeLB params.sizeUB = .ok bits) :
    RT bits pos (leafDec .octs params) (.octs bytes) := by
  have h1 := RT_octetString_any pos bytes params bits hok hfrag hv h
  unfold leafDec decLeaf
  intro tail ht
  have := h1 tail ht
  rw [D_bind_apply] at this ⊢
  cases hx : extBits params false (mkRd (bits ++ tail) pos) with
  | error e => rw [hx] at this; simp at this
  | ok p =>
    obtain ⟨x, r1⟩ := p
    rw [hx] at this
    dsimp only at this ⊢
    rw [D_bind_apply, this]
    rfl

theorem RT_leaf_str_any (pos : Nat) (bytes : Bytes) (params : Params) (bits : Bits)
    (hok : SizedParamsOK params) (hfrag : FragParamsOK params) (hv : params.valueExt = false)
    (h : appendOctetString pos bytes params.sizeExt params.sizeLB params.sizeUB = .ok bits) :
    RT bits pos (leafDec .str params) (.str bytes) := by
  have h1 := RT_octetString_any pos bytes params bits hok hfrag hv h
  unfold leafDec decLeaf
  intro tail ht
  have := h1 tail ht
  rw [D_bind_apply] at this ⊢
  cases hx : extBits params false (mkRd (bits ++ tail) pos) with
  | error e => rw [hx] at this; simp at this
  | ok p =>
    obtain ⟨x, r1⟩ := p
    rw [hx] at this
    dsimp only at this ⊢
    rw [D_bind_apply, this]
    rfl

theorem RT_leaf_bits_any (pos : Nat) (bytes : Bytes) (len : Nat) (params : Params) (bits : Bits)
    (hok : SizedParamsOK params) (hfrag : FragParamsOK params) (hv : params.valueExt = false)
    (hcanon : bitsToBytes ((bytesToBits bytes).take len) = bytes)
    (h : appendBitString pos bytes len params.sizeExt params.sizeLB params.sizeUB = .ok bits) :
    RT bits pos (leafDec .bits params) (.bits bytes len) := by
  have h1 := RT_bitString_any pos bytes len params bits hok hfrag hv h
  rw [hcanon] at h1
  unfold leafDec decLeaf
  intro tail ht
  have := h1 tail ht
  rw [D_bind_apply] at this ⊢
  cases hx : extBits params false (mkRd (bits ++ tail) pos) with
  | error e => rw [hx] at this; simp at this
  | ok p =>
    obtain ⟨x, r1⟩ := p
    rw [hx] at this
    dsimp only at this ⊢
    rw [D_bind_apply, this]
    rfl

/-- an open type of ANY content length: (fragmented) general length, alignment, the padded inner encoding; the decoder
    returns its octets -/
theorem RT_openType_any (pos1 : Nat) (inner bits : Bits) (g : Nat)
    (hg : (inner.length + 7) / 8 / 16384 + 1 ≤ g) (h : encOpenType pos1 inner = .ok bits) :
    RT bits pos1 (openTypeOctets g []) (bitsToBytes (inner ++ alignBits inner.length)) := by
  unfold encOpenType at h
  dsimp only at h
  have hpl : (inner ++ alignBits inner.length).length = 8 * ((inner.length + 7) / 8) := by
    rw [List.length_append, AperSpec.alignBits_length]; omega
  rw [AperSpec.fragLoop_unc 8 (by decide) ((inner.length + 7) / 8 / 16384 + 1) pos1 ((inner.length + 7) / 8)
    (inner ++ alignBits inner.length) (by rw [hpl]; omega) (Nat.le_refl _)] at h
  simp only [Except.ok.injEq] at h
  have hmod : (inner ++ alignBits inner.length).length % 8 = 0 := by rw [hpl]; omega
  have hbb := bytesToBits_bitsToBytes_aligned _ hmod
  have hbl := bitsToBytes_length_aligned _ hmod
  have hcount : (bitsToBytes (inner ++ alignBits inner.length)).length = (inner.length + 7) / 8 := by
    rw [hpl] at hbl; omega
  have := RT_openItems ((inner.length + 7) / 8 / 16384 + 1) pos1 (bitsToBytes (inner ++ alignBits inner.length)) [] g
    (by rw [hcount]) hg
  rw [hcount, hbb, h] at this
  exact this

/-- the encoding of an open type holds at least its content -/
theorem encOpenType_length (pos1 : Nat) (inner bits : Bits) (h : encOpenType pos1 inner = .ok bits) :
    8 * ((inner.length + 7) / 8) ≤ bits.length := by
  unfold encOpenType at h
  dsimp only at h
  have hpl : (inner ++ alignBits inner.length).length = 8 * ((inner.length + 7) / 8) := by
    rw [List.length_append, AperSpec.alignBits_length]; omega
  rw [AperSpec.fragLoop_unc 8 (by decide) ((inner.length + 7) / 8 / 16384 + 1) pos1 ((inner.length + 7) / 8)
    (inner ++ alignBits inner.length) (by rw [hpl]; omega) (Nat.le_refl _)] at h
  simp only [Except.ok.injEq] at h
  have := lengthAndItems_length 8 ((inner.length + 7) / 8 / 16384 + 1) pos1 ((inner.length + 7) / 8)
    (inner ++ alignBits inner.length) (by rw [hpl]; omega) (Nat.le_refl _)
  rw [h, hpl] at this
  exact this

end Stgutg.Proofs.AperRT
