/-
  C02 helper: the NGAP messages of the life cycle after registration on the wire — PDU SESSION RESOURCE SETUP RESPONSE, INITIAL
  CONTEXT SETUP RESPONSE (service request), PDU SESSION RESOURCE RELEASE RESPONSE, UE CONTEXT RELEASE COMPLETE: for all in-range
  arguments the wrapper returns octets, the reference AMF decodes them to the built PDU, and what the judge reads from it
  (message, mandatory IEs, identifiers, PDU session identities) is what the wrapper was given.
-/
import Stgutg.Proofs.BuildersJudge

namespace Stgutg.Proofs.BuildersLife
open Stgutg Stgutg.Aper Stgutg.Builders Stgutg.Model.Convert Stgutg.Spec.NgapView
open Stgutg.Proofs.Builders Stgutg.Proofs.BuildersPath Stgutg.Proofs.BuildersRange Stgutg.Proofs.BuildersTm
open Stgutg.Proofs.BuildersRoles Stgutg.Proofs.BuildersJudge

/-- the skeleton of row `n` of a template's decision table -/
def skAt (t : Template) (n : Nat) : Tm :=
  match t.cases[n]? with
  | some ⟨_, .val tm⟩ => tm
  | _ => .nil

set_option maxRecDepth 1000000 in
theorem life_noExtra :
    (noExtra tPDUSessionResourceSetupResponseForRegistrationTest (skAt tPDUSessionResourceSetupResponseForRegistrationTest 2) &&
     noExtra tInitialContextSetupResponse (skAt tInitialContextSetupResponse 4) &&
     noExtra tPDUSessionResourceReleaseResponseForReleaseTest (skAt tPDUSessionResourceReleaseResponseForReleaseTest 0) &&
     noExtra tUEContextReleaseComplete (skAt tUEContextReleaseComplete 0)) = true := by decide +kernel

/-- the explicit ranges of the life-cycle wrappers: both identifiers, a PDU session identity 0..255, an IPv4 text
    `net.ParseIP(..).To4()` accepts -/
structure LifeArgs (E : Ext) (amf ran psi : Int) (ip : Bytes) : Prop where
  ha0 : 0 ≤ amf
  ha1 : amf < 2 ^ 40
  hr0 : 0 ≤ ran
  hr1 : ran < 2 ^ 32
  hp0 : 0 ≤ psi
  hp1 : psi ≤ 255
  hip : cls E .ip (.str ip) = 2

/-- PDU SESSION RESOURCE SETUP RESPONSE -/
theorem inRange_setupResponse (E : Ext) (plmn : Bytes) (hplmn : plmn.length = 3) (amf ran psi : Int) (ip : Bytes)
    (h : LifeArgs E amf ran psi ip) :
    selected E tPDUSessionResourceSetupResponseForRegistrationTest plmn [.int amf, .int ran, .int psi, .str ip] =
      some ⟨[2], .val (skAt tPDUSessionResourceSetupResponseForRegistrationTest 2)⟩ ∧
    InRange true E tPDUSessionResourceSetupResponseForRegistrationTest plmn [.int amf, .int ran, .int psi, .str ip] := by
  have hx : noExtra tPDUSessionResourceSetupResponseForRegistrationTest
      (skAt tPDUSessionResourceSetupResponseForRegistrationTest 2) = true := by
    have := life_noExtra; simp only [Bool.and_eq_true] at this; exact this.1.1.1
  have hsel : selected E tPDUSessionResourceSetupResponseForRegistrationTest plmn [.int amf, .int ran, .int psi, .str ip] =
      some ⟨[2], .val (skAt tPDUSessionResourceSetupResponseForRegistrationTest 2)⟩ := by
    simp [selected, classes, roleAt, effEnv, BEnv.arg, announced, tPDUSessionResourceSetupResponseForRegistrationTest, h.hip, skAt]
  refine ⟨hsel, ?_⟩
  refine Props.C13.C13_in_range true E _ (mem_hand (by simp [handTable])) plmn _ _ _ hsel rfl ?_ (noExtra_generic _ _ hx _ _ _)
  have hn := noExtra_lists _ _ hx
  refine ⟨hplmn, ?_, ?_, ?_, ?_, ?_, ?_, ?_, fun i hi _ => absurd hi (hn i)⟩
  · intro i hi
    rcases i with _ | _ | _ | _ | i <;> simp [roleAt, tPDUSessionResourceSetupResponseForRegistrationTest] at hi
    exact ⟨amf, rfl, h.ha0, h.ha1⟩
  · intro i hi
    rcases i with _ | _ | _ | _ | i <;> simp [roleAt, tPDUSessionResourceSetupResponseForRegistrationTest] at hi
    exact ⟨ran, rfl, h.hr0, h.hr1⟩
  · intro i hi
    rcases i with _ | _ | _ | _ | i <;> simp [roleAt, tPDUSessionResourceSetupResponseForRegistrationTest] at hi
    exact ⟨psi, rfl, h.hp0, h.hp1⟩
  · intro i hi
    rcases i with _ | _ | _ | _ | i <;> simp [roleAt, tPDUSessionResourceSetupResponseForRegistrationTest] at hi
    exact ⟨ip, rfl, h.hip⟩
  · intro i hi; rcases i with _ | _ | _ | _ | i <;> simp [roleAt, tPDUSessionResourceSetupResponseForRegistrationTest] at hi
  · intro i j hi; rcases i with _ | _ | _ | _ | i <;> simp [roleAt, tPDUSessionResourceSetupResponseForRegistrationTest] at hi
  · intro i j hi; rcases i with _ | _ | _ | _ | i <;> simp [roleAt, tPDUSessionResourceSetupResponseForRegistrationTest] at hi


/-- INITIAL CONTEXT SETUP RESPONSE answering a service request (`GetInitialContextSetupResponseForServiceRequest`: nil failed list) -/
theorem inRange_icsResponseSvc (E : Ext) (plmn : Bytes) (hplmn : plmn.length = 3) (amf ran psi : Int) (ip : Bytes)
    (h : LifeArgs E amf ran psi ip) :
    selected E tInitialContextSetupResponse plmn [.int amf, .int ran, .int psi, .str ip, .nil] =
      some ⟨[2, 0], .val (skAt tInitialContextSetupResponse 4)⟩ ∧
    InRange true E tInitialContextSetupResponse plmn [.int amf, .int ran, .int psi, .str ip, .nil] := by
  have hx : noExtra tInitialContextSetupResponse (skAt tInitialContextSetupResponse 4) = true := by
    have := life_noExtra; simp only [Bool.and_eq_true] at this; exact this.1.1.2
  have hsel : selected E tInitialContextSetupResponse plmn [.int amf, .int ran, .int psi, .str ip, .nil] =
      some ⟨[2, 0], .val (skAt tInitialContextSetupResponse 4)⟩ := by
    have hcl : classes E tInitialContextSetupResponse (effEnv tInitialContextSetupResponse plmn
        [.int amf, .int ran, .int psi, .str ip, .nil]) = [2, 0] := by
      have hip := h.hip
      simp only [classes, tInitialContextSetupResponse, List.map_cons, List.map_nil, roleAt, effEnv, BEnv.arg, announced]
      simp only [List.getElem?_cons_succ, List.getElem?_cons_zero, hip]
      rfl
    simp only [selected, hcl]
    rfl
  refine ⟨hsel, ?_⟩
  refine Props.C13.C13_in_range true E _ (mem_hand (by simp [handTable])) plmn _ _ _ hsel rfl ?_ (noExtra_generic _ _ hx _ _ _)
  have hn := noExtra_lists _ _ hx
  refine ⟨hplmn, ?_, ?_, ?_, ?_, ?_, ?_, ?_, fun i hi _ => absurd hi (hn i)⟩
  · intro i hi
    rcases i with _ | _ | _ | _ | _ | i <;> simp [roleAt, tInitialContextSetupResponse] at hi
    exact ⟨amf, rfl, h.ha0, h.ha1⟩
  · intro i hi
    rcases i with _ | _ | _ | _ | _ | i <;> simp [roleAt, tInitialContextSetupResponse] at hi
    exact ⟨ran, rfl, h.hr0, h.hr1⟩
  · intro i hi
    rcases i with _ | _ | _ | _ | _ | i <;> simp [roleAt, tInitialContextSetupResponse] at hi
    exact ⟨psi, rfl, h.hp0, h.hp1⟩
  · intro i hi
    rcases i with _ | _ | _ | _ | _ | i <;> simp [roleAt, tInitialContextSetupResponse] at hi
    exact ⟨ip, rfl, h.hip⟩
  · intro i hi; rcases i with _ | _ | _ | _ | _ | i <;> simp [roleAt, tInitialContextSetupResponse] at hi
  · intro i j hi; rcases i with _ | _ | _ | _ | _ | i <;> simp [roleAt, tInitialContextSetupResponse] at hi
  · intro i j hi; rcases i with _ | _ | _ | _ | _ | i <;> simp [roleAt, tInitialContextSetupResponse] at hi

/-- PDU SESSION RESOURCE RELEASE RESPONSE -/
theorem inRange_releaseResponse (E : Ext) (plmn : Bytes) (hplmn : plmn.length = 3) (amf ran psi : Int)
    (ha0 : 0 ≤ amf) (ha1 : amf < 2 ^ 40) (hr0 : 0 ≤ ran) (hr1 : ran < 2 ^ 32) (hp0 : 0 ≤ psi) (hp1 : psi ≤ 255) :
    InRange true E tPDUSessionResourceReleaseResponseForReleaseTest plmn [.int amf, .int ran, .int psi] := by
  have hx : noExtra tPDUSessionResourceReleaseResponseForReleaseTest (skAt tPDUSessionResourceReleaseResponseForReleaseTest 0) = true := by
    have := life_noExtra; simp only [Bool.and_eq_true] at this; exact this.1.2
  refine Props.C13.C13_in_range true E _ (mem_hand (by simp [handTable])) plmn _ ⟨[], .val _⟩ _ rfl rfl ?_
    (noExtra_generic _ _ hx _ _ _)
  have hn := noExtra_lists _ _ hx
  refine ⟨hplmn, ?_, ?_, ?_, ?_, ?_, ?_, ?_, fun i hi _ => absurd hi (hn i)⟩
  · intro i hi
    rcases i with _ | _ | _ | i <;> simp [roleAt, tPDUSessionResourceReleaseResponseForReleaseTest] at hi
    exact ⟨amf, rfl, ha0, ha1⟩
  · intro i hi
    rcases i with _ | _ | _ | i <;> simp [roleAt, tPDUSessionResourceReleaseResponseForReleaseTest] at hi
    exact ⟨ran, rfl, hr0, hr1⟩
  · intro i hi
    rcases i with _ | _ | _ | i <;> simp [roleAt, tPDUSessionResourceReleaseResponseForReleaseTest] at hi
    exact ⟨psi, rfl, hp0, hp1⟩
  · intro i hi; rcases i with _ | _ | _ | i <;> simp [roleAt, tPDUSessionResourceReleaseResponseForReleaseTest] at hi
  · intro i hi; rcases i with _ | _ | _ | i <;> simp [roleAt, tPDUSessionResourceReleaseResponseForReleaseTest] at hi
  · intro i j hi; rcases i with _ | _ | _ | i <;> simp [roleAt, tPDUSessionResourceReleaseResponseForReleaseTest] at hi
  · intro i j hi; rcases i with _ | _ | _ | i <;> simp [roleAt, tPDUSessionResourceReleaseResponseForReleaseTest] at hi

/-- UE CONTEXT RELEASE COMPLETE without a PDU session list (`pduSessionIDList == nil`) -/
theorem inRange_ueContextReleaseComplete (E : Ext) (plmn : Bytes) (hplmn : plmn.length = 3) (amf ran : Int)
    (ha0 : 0 ≤ amf) (ha1 : amf < 2 ^ 40) (hr0 : 0 ≤ ran) (hr1 : ran < 2 ^ 32) :
    InRange true E tUEContextReleaseComplete plmn [.int amf, .int ran, .nil] := by
  have hx : noExtra tUEContextReleaseComplete (skAt tUEContextReleaseComplete 0) = true := by
    have := life_noExtra; simp only [Bool.and_eq_true] at this; exact this.2
  refine Props.C13.C13_in_range true E _ (mem_hand (by simp [handTable])) plmn _ ⟨[0], .val (skAt tUEContextReleaseComplete 0)⟩ _
    rfl rfl ?_ (noExtra_generic _ _ hx _ _ _)
  have hn := noExtra_lists _ _ hx
  refine ⟨hplmn, ?_, ?_, ?_, ?_, ?_, ?_, ?_, fun i hi _ => absurd hi (hn i)⟩
  · intro i hi
    rcases i with _ | _ | _ | i <;> simp [roleAt, tUEContextReleaseComplete] at hi
    exact ⟨amf, rfl, ha0, ha1⟩
  · intro i hi
    rcases i with _ | _ | _ | i <;> simp [roleAt, tUEContextReleaseComplete] at hi
    exact ⟨ran, rfl, hr0, hr1⟩
  · intro i hi; rcases i with _ | _ | _ | i <;> simp [roleAt, tUEContextReleaseComplete] at hi
  · intro i hi; rcases i with _ | _ | _ | i <;> simp [roleAt, tUEContextReleaseComplete] at hi
  · intro i hi; rcases i with _ | _ | _ | i <;> simp [roleAt, tUEContextReleaseComplete] at hi
  · intro i j hi; rcases i with _ | _ | _ | i <;> simp [roleAt, tUEContextReleaseComplete] at hi
  · intro i j hi; rcases i with _ | _ | _ | i <;> simp [roleAt, tUEContextReleaseComplete] at hi

set_option maxRecDepth 100000 in
open Spec.Ts38413 in
/-- table facts about the life-cycle skeletons (no schema involved) -/
theorem life_carriers :
    (carriesExact (skAt tPDUSessionResourceSetupResponseForRegistrationTest 2) ieAMFUENGAPID (.arg 0) &&
     carriesExact (skAt tPDUSessionResourceSetupResponseForRegistrationTest 2) ieRANUENGAPID (.arg 1) &&
     carriesExact (skAt tInitialContextSetupResponse 4) ieAMFUENGAPID (.arg 0) &&
     carriesExact (skAt tInitialContextSetupResponse 4) ieRANUENGAPID (.arg 1) &&
     carriesExact (skAt tPDUSessionResourceReleaseResponseForReleaseTest 0) ieAMFUENGAPID (.arg 0) &&
     carriesExact (skAt tPDUSessionResourceReleaseResponseForReleaseTest 0) ieRANUENGAPID (.arg 1) &&
     carriesExact (skAt tUEContextReleaseComplete 0) ieAMFUENGAPID (.arg 0) &&
     carriesExact (skAt tUEContextReleaseComplete 0) ieRANUENGAPID (.arg 1)) = true := by decide +kernel

/-- the PDU session identities the judge reads from a list IE whose (single) item starts with the PDU Session ID `psi` -/
theorem iePsis_of (pdu : Val) (id : Nat) (psi : Int) (x y : Val)
    (h : ieValuesById pdu (id : Int) = some [some (.struct [.slice [.struct [.struct [.int psi], x, y]]])]) :
    Spec.Amf.iePsis pdu id = some [psi] := by
  unfold Spec.Amf.iePsis; rw [h]; rfl

open Spec.Ts38413 in
/-- PDU SESSION RESOURCE SETUP RESPONSE on the wire -/
theorem setupResponse_wire (E : Ext) (plmn : Bytes) (hplmn : plmn.length = 3) (amf ran psi : Int) (ip : Bytes)
    (h : LifeArgs E amf ran psi ip) :
    ∃ pdu b, Wrapper.run E .GetPDUSessionResourceSetupResponse plmn [.int amf, .int ran, .int psi, .str ip] = .ok (.ok b) ∧
      Spec.Amf.decodeNgap b = some pdu ∧
      pduPresent pdu = some ((msgClass .PDUSessionResourceSetupResponse).index + 1) ∧
      pduProc pdu = some (procCode .PDUSessionResourceSetupResponse : Int) ∧
      Spec.Amf.missingMandatory .PDUSessionResourceSetupResponse pdu = none ∧
      Spec.Amf.ieInt pdu ieAMFUENGAPID = some amf ∧ Spec.Amf.ieInt pdu ieRANUENGAPID = some ran ∧
      Spec.Amf.iePsis pdu iePDUSessionResourceSetupListSURes = some [psi] := by
  have ht : tPDUSessionResourceSetupResponseForRegistrationTest ∈ allTable := mem_hand (by simp [handTable])
  have hc := life_carriers
  simp only [Bool.and_eq_true] at hc
  obtain ⟨hsel, hin⟩ := inRange_setupResponse E plmn hplmn amf ran psi ip h
  obtain ⟨b, hb, he, hd⟩ := skeleton_seen E _ ht plmn _ hin _ _ hsel rfl rfl
  have hsh : Shaped E tPDUSessionResourceSetupResponseForRegistrationTest plmn [.int amf, .int ran, .int psi, .str ip]
      (eval E (effEnv tPDUSessionResourceSetupResponseForRegistrationTest plmn [.int amf, .int ran, .int psi, .str ip]) .nil
        (skAt tPDUSessionResourceSetupResponseForRegistrationTest 2)) :=
    ⟨_, by simp [skeletons, skAt, tPDUSessionResourceSetupResponseForRegistrationTest], rfl⟩
  obtain ⟨f1, f2, f3⟩ := shaped_facts E _ ht plmn _ _ hsh _ rfl
  refine ⟨_, b, ?_, hd, f1, f2, f3, ?_, ?_, ?_⟩
  · have hw : Wrapper.pdu E .GetPDUSessionResourceSetupResponse plmn [.int amf, .int ran, .int psi, .str ip] = .ok _ := hb
    unfold Wrapper.run; rw [hw]; simp only [he]
  · exact ieInt_of_exact _ _ amf (carriesExact_sound E _ .nil _ _ _ hc.1.1.1.1.1.1.1)
  · exact ieInt_of_exact _ _ ran (carriesExact_sound E _ .nil _ _ _ hc.1.1.1.1.1.1.2)
  · have := ieValuesById_eval E (effEnv tPDUSessionResourceSetupResponseForRegistrationTest plmn
        [.int amf, .int ran, .int psi, .str ip]) .nil (skAt tPDUSessionResourceSetupResponseForRegistrationTest 2)
      (iePDUSessionResourceSetupListSURes : Int) _ rfl _ rfl
      [.struct [.slice [psiItem (.hole (.arg 2)) (setupResponseTransfer 3)]]] rfl
    simp only [List.map_cons, List.map_nil, psiItem, eval, evalL, evalHole] at this
    exact iePsis_of _ _ psi _ _ this

open Spec.Ts38413 in
/-- INITIAL CONTEXT SETUP RESPONSE (service request) on the wire -/
theorem icsResponseSvc_wire (E : Ext) (plmn : Bytes) (hplmn : plmn.length = 3) (amf ran psi : Int) (ip : Bytes)
    (h : LifeArgs E amf ran psi ip) :
    ∃ pdu b, Wrapper.run E .GetInitialContextSetupResponseForServiceRequest plmn [.int amf, .int ran, .int psi, .str ip]
        = .ok (.ok b) ∧
      Spec.Amf.decodeNgap b = some pdu ∧
      pduPresent pdu = some ((msgClass .InitialContextSetupResponse).index + 1) ∧
      pduProc pdu = some (procCode .InitialContextSetupResponse : Int) ∧
      Spec.Amf.missingMandatory .InitialContextSetupResponse pdu = none ∧
      Spec.Amf.ieInt pdu ieAMFUENGAPID = some amf ∧ Spec.Amf.ieInt pdu ieRANUENGAPID = some ran ∧
      Spec.Amf.iePsis pdu iePDUSessionResourceSetupListCxtRes = some [psi] := by
  have ht : tInitialContextSetupResponse ∈ allTable := mem_hand (by simp [handTable])
  have hc := life_carriers
  simp only [Bool.and_eq_true] at hc
  obtain ⟨hsel, hin⟩ := inRange_icsResponseSvc E plmn hplmn amf ran psi ip h
  obtain ⟨b, hb, he, hd⟩ := skeleton_seen E _ ht plmn _ hin _ _ hsel rfl rfl
  have hsh : Shaped E tInitialContextSetupResponse plmn [.int amf, .int ran, .int psi, .str ip, .nil]
      (eval E (effEnv tInitialContextSetupResponse plmn [.int amf, .int ran, .int psi, .str ip, .nil]) .nil
        (skAt tInitialContextSetupResponse 4)) :=
    ⟨_, by simp [skeletons, skAt, tInitialContextSetupResponse], rfl⟩
  obtain ⟨f1, f2, f3⟩ := shaped_facts E _ ht plmn _ _ hsh _ rfl
  refine ⟨_, b, ?_, hd, f1, f2, f3, ?_, ?_, ?_⟩
  · have hw : Wrapper.pdu E .GetInitialContextSetupResponseForServiceRequest plmn [.int amf, .int ran, .int psi, .str ip] = .ok _ := hb
    unfold Wrapper.run; rw [hw]; simp only [he]
  · exact ieInt_of_exact _ _ amf (carriesExact_sound E _ .nil _ _ _ hc.1.1.1.1.1.2)
  · exact ieInt_of_exact _ _ ran (carriesExact_sound E _ .nil _ _ _ hc.1.1.1.1.2)
  · have := ieValuesById_eval E (effEnv tInitialContextSetupResponse plmn [.int amf, .int ran, .int psi, .str ip, .nil]) .nil
      (skAt tInitialContextSetupResponse 4) (iePDUSessionResourceSetupListCxtRes : Int) _ rfl _ rfl
      [.struct [.slice [psiItem (.hole (.arg 2)) (setupResponseTransfer 3)]]] rfl
    simp only [List.map_cons, List.map_nil, psiItem, eval, evalL, evalHole] at this
    exact iePsis_of _ _ psi _ _ this

open Spec.Ts38413 in
/-- PDU SESSION RESOURCE RELEASE RESPONSE on the wire -/
theorem releaseResponse_wire (E : Ext) (plmn : Bytes) (hplmn : plmn.length = 3) (amf ran psi : Int)
    (ha0 : 0 ≤ amf) (ha1 : amf < 2 ^ 40) (hr0 : 0 ≤ ran) (hr1 : ran < 2 ^ 32) (hp0 : 0 ≤ psi) (hp1 : psi ≤ 255) :
    ∃ pdu b, Wrapper.run E .GetPDUSessionResourceReleaseResponse plmn [.int amf, .int ran, .int psi] = .ok (.ok b) ∧
      Spec.Amf.decodeNgap b = some pdu ∧
      pduPresent pdu = some ((msgClass .PDUSessionResourceReleaseResponse).index + 1) ∧
      pduProc pdu = some (procCode .PDUSessionResourceReleaseResponse : Int) ∧
      Spec.Amf.missingMandatory .PDUSessionResourceReleaseResponse pdu = none ∧
      Spec.Amf.ieInt pdu ieAMFUENGAPID = some amf ∧ Spec.Amf.ieInt pdu ieRANUENGAPID = some ran ∧
      Spec.Amf.iePsis pdu iePDUSessionResourceReleasedListRelRes = some [psi] := by
  have ht : tPDUSessionResourceReleaseResponseForReleaseTest ∈ allTable := mem_hand (by simp [handTable])
  have hc := life_carriers
  simp only [Bool.and_eq_true] at hc
  obtain ⟨b, hb, he, hd⟩ := skeleton_seen E _ ht plmn _ (inRange_releaseResponse E plmn hplmn amf ran psi ha0 ha1 hr0 hr1 hp0 hp1)
    ⟨[], .val (skAt tPDUSessionResourceReleaseResponseForReleaseTest 0)⟩ (skAt tPDUSessionResourceReleaseResponseForReleaseTest 0)
    rfl rfl rfl
  have hsh : Shaped E tPDUSessionResourceReleaseResponseForReleaseTest plmn [.int amf, .int ran, .int psi]
      (eval E (effEnv tPDUSessionResourceReleaseResponseForReleaseTest plmn [.int amf, .int ran, .int psi]) .nil
        (skAt tPDUSessionResourceReleaseResponseForReleaseTest 0)) :=
    ⟨_, by simp [skeletons, skAt, tPDUSessionResourceReleaseResponseForReleaseTest], rfl⟩
  obtain ⟨f1, f2, f3⟩ := shaped_facts E _ ht plmn _ _ hsh _ rfl
  refine ⟨_, b, ?_, hd, f1, f2, f3, ?_, ?_, ?_⟩
  · have hw : Wrapper.pdu E .GetPDUSessionResourceReleaseResponse plmn [.int amf, .int ran, .int psi] = .ok _ := hb
    unfold Wrapper.run; rw [hw]; simp only [he]
  · exact ieInt_of_exact _ _ amf (carriesExact_sound E _ .nil _ _ _ hc.1.1.1.2)
  · exact ieInt_of_exact _ _ ran (carriesExact_sound E _ .nil _ _ _ hc.1.1.2)
  · have := ieValuesById_eval E (effEnv tPDUSessionResourceReleaseResponseForReleaseTest plmn [.int amf, .int ran, .int psi]) .nil
      (skAt tPDUSessionResourceReleaseResponseForReleaseTest 0) (iePDUSessionResourceReleasedListRelRes : Int) _ rfl _ rfl
      [.struct [.slice [psiItem (.hole (.arg 2)) releaseResponseTransfer]]] rfl
    simp only [List.map_cons, List.map_nil, psiItem, eval, evalL, evalHole] at this
    exact iePsis_of _ _ psi _ _ this

open Spec.Ts38413 in
/-- UE CONTEXT RELEASE COMPLETE on the wire -/
theorem ueContextReleaseComplete_wire (E : Ext) (plmn : Bytes) (hplmn : plmn.length = 3) (amf ran : Int)
    (ha0 : 0 ≤ amf) (ha1 : amf < 2 ^ 40) (hr0 : 0 ≤ ran) (hr1 : ran < 2 ^ 32) :
    ∃ pdu b, Wrapper.run E .GetUEContextReleaseComplete plmn [.int amf, .int ran, .nil] = .ok (.ok b) ∧
      Spec.Amf.decodeNgap b = some pdu ∧
      pduPresent pdu = some ((msgClass .UEContextReleaseComplete).index + 1) ∧
      pduProc pdu = some (procCode .UEContextReleaseComplete : Int) ∧
      Spec.Amf.missingMandatory .UEContextReleaseComplete pdu = none ∧
      Spec.Amf.ieInt pdu ieAMFUENGAPID = some amf ∧ Spec.Amf.ieInt pdu ieRANUENGAPID = some ran := by
  have ht : tUEContextReleaseComplete ∈ allTable := mem_hand (by simp [handTable])
  have hc := life_carriers
  simp only [Bool.and_eq_true] at hc
  obtain ⟨b, hb, he, hd⟩ := skeleton_seen E _ ht plmn _ (inRange_ueContextReleaseComplete E plmn hplmn amf ran ha0 ha1 hr0 hr1)
    ⟨[0], .val (skAt tUEContextReleaseComplete 0)⟩ (skAt tUEContextReleaseComplete 0) rfl rfl rfl
  have hsh : Shaped E tUEContextReleaseComplete plmn [.int amf, .int ran, .nil]
      (eval E (effEnv tUEContextReleaseComplete plmn [.int amf, .int ran, .nil]) .nil (skAt tUEContextReleaseComplete 0)) :=
    ⟨_, by simp [skeletons, skAt, tUEContextReleaseComplete], rfl⟩
  obtain ⟨f1, f2, f3⟩ := shaped_facts E _ ht plmn _ _ hsh _ rfl
  refine ⟨_, b, ?_, hd, f1, f2, f3, ?_, ?_⟩
  · have hw : Wrapper.pdu E .GetUEContextReleaseComplete plmn [.int amf, .int ran, .nil] = .ok _ := hb
    unfold Wrapper.run; rw [hw]; simp only [he]
  · exact ieInt_of_exact _ _ amf (carriesExact_sound E _ .nil _ _ _ hc.1.2)
  · exact ieInt_of_exact _ _ ran (carriesExact_sound E _ .nil _ _ _ hc.2)

end Stgutg.Proofs.BuildersLife
