import Stgutg.Proofs.GenTieMilenageBase
/-!
  The scatter loops of milenage.go (`tmp[(i+s)%16] = a[i] ^ b[i]`, s = 4, 8, 12) by evaluation on 16 explicit octets
  (slow to check: kept in a module of its own).
-/
namespace Stgutg.Proofs.GenTie.Milenage
open Stgutg Stgutg.Gen Stgutg.Proofs.GenTie
open Stgutg.Model.Milenage
open Stgutg.Proofs.Milenage (len16)

set_option maxHeartbeats 1000000 in
theorem unroll16 {σ : Type} (body : Int → σ → Res σ) (s : σ) :
    Go.forLt body (16 : Int) 17 (0 : Int) s = (body 0 s >>= fun s => body 1 s >>= fun s => body 2 s >>= fun s => body 3 s >>= fun s => body 4 s >>= fun s => body 5 s >>= fun s => body 6 s >>= fun s => body 7 s >>= fun s => body 8 s >>= fun s => body 9 s >>= fun s => body 10 s >>= fun s => body 11 s >>= fun s => body 12 s >>= fun s => body 13 s >>= fun s => body 14 s >>= fun s => body 15 s >>= fun s => .ok s) := by rfl

theorem im4_0 : Go.imodc (Go.iadd (0 : Int) (4 : Int)) (16 : Int) = 4 := by decide
theorem im4_1 : Go.imodc (Go.iadd (1 : Int) (4 : Int)) (16 : Int) = 5 := by decide
theorem im4_2 : Go.imodc (Go.iadd (2 : Int) (4 : Int)) (16 : Int) = 6 := by decide
theorem im4_3 : Go.imodc (Go.iadd (3 : Int) (4 : Int)) (16 : Int) = 7 := by decide
theorem im4_4 : Go.imodc (Go.iadd (4 : Int) (4 : Int)) (16 : Int) = 8 := by decide
theorem im4_5 : Go.imodc (Go.iadd (5 : Int) (4 : Int)) (16 : Int) = 9 := by decide
theorem im4_6 : Go.imodc (Go.iadd (6 : Int) (4 : Int)) (16 : Int) = 10 := by decide
theorem im4_7 : Go.imodc (Go.iadd (7 : Int) (4 : Int)) (16 : Int) = 11 := by decide
theorem im4_8 : Go.imodc (Go.iadd (8 : Int) (4 : Int)) (16 : Int) = 12 := by decide
theorem im4_9 : Go.imodc (Go.iadd (9 : Int) (4 : Int)) (16 : Int) = 13 := by decide
theorem im4_10 : Go.imodc (Go.iadd (10 : Int) (4 : Int)) (16 : Int) = 14 := by decide
theorem im4_11 : Go.imodc (Go.iadd (11 : Int) (4 : Int)) (16 : Int) = 15 := by decide
theorem im4_12 : Go.imodc (Go.iadd (12 : Int) (4 : Int)) (16 : Int) = 0 := by decide
theorem im4_13 : Go.imodc (Go.iadd (13 : Int) (4 : Int)) (16 : Int) = 1 := by decide
theorem im4_14 : Go.imodc (Go.iadd (14 : Int) (4 : Int)) (16 : Int) = 2 := by decide
theorem im4_15 : Go.imodc (Go.iadd (15 : Int) (4 : Int)) (16 : Int) = 3 := by decide
theorem im8_0 : Go.imodc (Go.iadd (0 : Int) (8 : Int)) (16 : Int) = 8 := by decide
theorem im8_1 : Go.imodc (Go.iadd (1 : Int) (8 : Int)) (16 : Int) = 9 := by decide
theorem im8_2 : Go.imodc (Go.iadd (2 : Int) (8 : Int)) (16 : Int) = 10 := by decide
theorem im8_3 : Go.imodc (Go.iadd (3 : Int) (8 : Int)) (16 : Int) = 11 := by decide
theorem im8_4 : Go.imodc (Go.iadd (4 : Int) (8 : Int)) (16 : Int) = 12 := by decide
theorem im8_5 : Go.imodc (Go.iadd (5 : Int) (8 : Int)) (16 : Int) = 13 := by decide
theorem im8_6 : Go.imodc (Go.iadd (6 : Int) (8 : Int)) (16 : Int) = 14 := by decide
theorem im8_7 : Go.imodc (Go.iadd (7 : Int) (8 : Int)) (16 : Int) = 15 := by decide
theorem im8_8 : Go.imodc (Go.iadd (8 : Int) (8 : Int)) (16 : Int) = 0 := by decide
theorem im8_9 : Go.imodc (Go.iadd (9 : Int) (8 : Int)) (16 : Int) = 1 := by decide
theorem im8_10 : Go.imodc (Go.iadd (10 : Int) (8 : Int)) (16 : Int) = 2 := by decide
theorem im8_11 : Go.imodc (Go.iadd (11 : Int) (8 : Int)) (16 : Int) = 3 := by decide
theorem im8_12 : Go.imodc (Go.iadd (12 : Int) (8 : Int)) (16 : Int) = 4 := by decide
theorem im8_13 : Go.imodc (Go.iadd (13 : Int) (8 : Int)) (16 : Int) = 5 := by decide
theorem im8_14 : Go.imodc (Go.iadd (14 : Int) (8 : Int)) (16 : Int) = 6 := by decide
theorem im8_15 : Go.imodc (Go.iadd (15 : Int) (8 : Int)) (16 : Int) = 7 := by decide
theorem im12_0 : Go.imodc (Go.iadd (0 : Int) (12 : Int)) (16 : Int) = 12 := by decide
theorem im12_1 : Go.imodc (Go.iadd (1 : Int) (12 : Int)) (16 : Int) = 13 := by decide
theorem im12_2 : Go.imodc (Go.iadd (2 : Int) (12 : Int)) (16 : Int) = 14 := by decide
theorem im12_3 : Go.imodc (Go.iadd (3 : Int) (12 : Int)) (16 : Int) = 15 := by decide
theorem im12_4 : Go.imodc (Go.iadd (4 : Int) (12 : Int)) (16 : Int) = 0 := by decide
theorem im12_5 : Go.imodc (Go.iadd (5 : Int) (12 : Int)) (16 : Int) = 1 := by decide
theorem im12_6 : Go.imodc (Go.iadd (6 : Int) (12 : Int)) (16 : Int) = 2 := by decide
theorem im12_7 : Go.imodc (Go.iadd (7 : Int) (12 : Int)) (16 : Int) = 3 := by decide
theorem im12_8 : Go.imodc (Go.iadd (8 : Int) (12 : Int)) (16 : Int) = 4 := by decide
theorem im12_9 : Go.imodc (Go.iadd (9 : Int) (12 : Int)) (16 : Int) = 5 := by decide
theorem im12_10 : Go.imodc (Go.iadd (10 : Int) (12 : Int)) (16 : Int) = 6 := by decide
theorem im12_11 : Go.imodc (Go.iadd (11 : Int) (12 : Int)) (16 : Int) = 7 := by decide
theorem im12_12 : Go.imodc (Go.iadd (12 : Int) (12 : Int)) (16 : Int) = 8 := by decide
theorem im12_13 : Go.imodc (Go.iadd (13 : Int) (12 : Int)) (16 : Int) = 9 := by decide
theorem im12_14 : Go.imodc (Go.iadd (14 : Int) (12 : Int)) (16 : Int) = 10 := by decide
theorem im12_15 : Go.imodc (Go.iadd (15 : Int) (12 : Int)) (16 : Int) = 11 := by decide

set_option maxHeartbeats 4000000 in
set_option maxRecDepth 8000 in
/-- `for i := 0; i < 16; i++ { out[(i+4)%16] = a[i] ^ b[i] }` on 16-octet buffers -/
theorem loopB4 (a b out : Bytes) (ha : a.length = 16) (hb : 16 ≤ b.length) (ho : out.length = 16) :
    Go.forLt (fun i out => Go.idx a i >>= fun x => Go.idx b i >>= fun y =>
        Go.set out (Go.imodc (Go.iadd i (4 : Int)) (16 : Int)) (x ^^^ y) >>= fun t => .ok t)
        (16 : Int) 17 (0 : Int) out
      = .ok (scatter 4 (xor16 a b)) := by
  obtain ⟨a0, a1, a2, a3, a4, a5, a6, a7, a8, a9, a10, a11, a12, a13, a14, a15, rfl⟩ := len16 ha
  obtain ⟨b0, b1, b2, b3, b4, b5, b6, b7, b8, b9, b10, b11, b12, b13, b14, b15, rb, rfl⟩ := ex16 b hb
  obtain ⟨o0, o1, o2, o3, o4, o5, o6, o7, o8, o9, o10, o11, o12, o13, o14, o15, rfl⟩ := len16 ho
  rw [unroll16]
  simp only [im4_0, im4_1, im4_2, im4_3, im4_4, im4_5, im4_6, im4_7, im4_8, im4_9, im4_10, im4_11, im4_12, im4_13, im4_14, im4_15]
  rfl

set_option maxHeartbeats 4000000 in
set_option maxRecDepth 8000 in
/-- `for i := 0; i < 16; i++ { out[(i+8)%16] = a[i] ^ b[i] }` on 16-octet buffers -/
theorem loopB8 (a b out : Bytes) (ha : a.length = 16) (hb : 16 ≤ b.length) (ho : out.length = 16) :
    Go.forLt (fun i out => Go.idx a i >>= fun x => Go.idx b i >>= fun y =>
        Go.set out (Go.imodc (Go.iadd i (8 : Int)) (16 : Int)) (x ^^^ y) >>= fun t => .ok t)
        (16 : Int) 17 (0 : Int) out
      = .ok (scatter 8 (xor16 a b)) := by
  obtain ⟨a0, a1, a2, a3, a4, a5, a6, a7, a8, a9, a10, a11, a12, a13, a14, a15, rfl⟩ := len16 ha
  obtain ⟨b0, b1, b2, b3, b4, b5, b6, b7, b8, b9, b10, b11, b12, b13, b14, b15, rb, rfl⟩ := ex16 b hb
  obtain ⟨o0, o1, o2, o3, o4, o5, o6, o7, o8, o9, o10, o11, o12, o13, o14, o15, rfl⟩ := len16 ho
  rw [unroll16]
  simp only [im8_0, im8_1, im8_2, im8_3, im8_4, im8_5, im8_6, im8_7, im8_8, im8_9, im8_10, im8_11, im8_12, im8_13, im8_14, im8_15]
  rfl

set_option maxHeartbeats 4000000 in
set_option maxRecDepth 8000 in
/-- `for i := 0; i < 16; i++ { out[(i+12)%16] = a[i] ^ b[i] }` on 16-octet buffers -/
theorem loopB12 (a b out : Bytes) (ha : a.length = 16) (hb : 16 ≤ b.length) (ho : out.length = 16) :
    Go.forLt (fun i out => Go.idx a i >>= fun x => Go.idx b i >>= fun y =>
        Go.set out (Go.imodc (Go.iadd i (12 : Int)) (16 : Int)) (x ^^^ y) >>= fun t => .ok t)
        (16 : Int) 17 (0 : Int) out
      = .ok (scatter 12 (xor16 a b)) := by
  obtain ⟨a0, a1, a2, a3, a4, a5, a6, a7, a8, a9, a10, a11, a12, a13, a14, a15, rfl⟩ := len16 ha
  obtain ⟨b0, b1, b2, b3, b4, b5, b6, b7, b8, b9, b10, b11, b12, b13, b14, b15, rb, rfl⟩ := ex16 b hb
  obtain ⟨o0, o1, o2, o3, o4, o5, o6, o7, o8, o9, o10, o11, o12, o13, o14, o15, rfl⟩ := len16 ho
  rw [unroll16]
  simp only [im12_0, im12_1, im12_2, im12_3, im12_4, im12_5, im12_6, im12_7, im12_8, im12_9, im12_10, im12_11, im12_12, im12_13, im12_14, im12_15]
  rfl


end Stgutg.Proofs.GenTie.Milenage
