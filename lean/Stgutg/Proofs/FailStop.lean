import Stgutg.Model.FailStop

/-!
# Helper lemmas for C19 (core Lean only)

Generic facts about `exec` on any list of safe operations; nothing here mentions the generated script.
-/
namespace Stgutg.Proofs.FailStop
open Stgutg.Model.FailStop

/-- the process terminated with a non-zero status -/
def Dead (s : St) : Prop := ∃ e, s.exit = some e ∧ e ≠ 0

/-- the fault classes of the property at a read whose strictness is `strict`: the peer has closed, or it sent
    undecodable octets to a read whose decoder error is checked -/
def isFault (strict : Bool) : Reply → Bool
  | .closed => true
  | .garbage => strict
  | _ => false

theorem exec_done (A : List Op) (s : St) (h : s.done = true) : exec A s = s := by
  cases A <;> simp [exec, h]

theorem exec_cons_running (op : Op) (A : List Op) (s : St) (h : s.done = false) :
    exec (op :: A) s = exec A (step op s) := by
  simp [exec, h]

theorem exec_append (A B : List Op) (s : St) : exec (A ++ B) s = exec B (exec A s) := by
  induction A generalizing s with
  | nil => simp [exec]
  | cons a as ih =>
    by_cases h : s.done = true
    · simp [exec, h, exec_done]
    · simp [exec, h, ih]

theorem dead_done {s : St} (h : Dead s) : s.done = true := by
  obtain ⟨e, he, _⟩ := h
  simp [St.done, he]

/-- a state is never both blocked and terminated -/
theorem step_blocked_no_exit (op : Op) (s : St) (hrun : s.done = false) :
    (step op s).blocked = true → (step op s).exit = none := by
  have hb : s.blocked = false := by simp [St.done] at hrun; exact hrun.2
  have he : s.exit = none := by simp [St.done] at hrun; exact hrun.1
  cases op with
  | recv rc er decoded var dc ed =>
    simp only [step]
    split
    · cases rc <;> cases decoded <;> cases dc <;> cases var <;> simp [St.fail, St.decodeFail, St.bind, hb, he]
    · split
      · simp [he]
      · rename_i r rest _
        cases r <;> cases rc <;> cases decoded <;> cases dc <;> cases var <;>
          simp [St.fail, St.decodeFail, St.bind, hb, he]
  | write n nas c e => simp only [step]; split <;> (try split) <;> simp [St.fail, hb, he]
  | use v g e => simp only [step]; cases lookupVal s.env v <;> cases g <;> simp [St.fail, St.panic, hb, he]
  | need l i => simp only [step]; split <;> simp [St.panic, hb, he]
  | exit c => simp [step, hb]
  | bad w => simp [step, he]
  | _ => simp [step, hb, he]

theorem blocked_no_exit (A : List Op) : ∀ (s : St), (s.blocked = true → s.exit = none) →
    (exec A s).blocked = true → (exec A s).exit = none := by
  induction A with
  | nil => intro s h; simpa [exec] using h
  | cons op rest ih =>
    intro s h
    by_cases hd : s.done = true
    · simpa [exec, hd] using h
    · have hd' : s.done = false := by simpa using hd
      rw [exec_cons_running op rest s hd']
      exact ih (step op s) (step_blocked_no_exit op s hd')

/-- what one run segment guarantees once a fault lies `j` reads ahead -/
structure Stopped (s o : St) (j : Nat) (A : List Op) : Prop where
  dead : Dead o
  consumed : o.consumed ≤ s.consumed + j + 1
  sessions : ∀ x ∈ o.sessions, x ∈ s.sessions ∨ x ≤ s.consumed + j
  printed : ∀ t, Out.line t ∈ o.printed → Out.line t ∈ s.printed ∨ Op.print t ∈ A
  slept : o.sleptMs ≤ s.sleptMs + sleepTotal A

def isRecv : Op → Bool
  | .recv .. => true
  | _ => false

theorem kinds_cons_nonrecv (op : Op) (A : List Op) (h : isRecv op = false) : kinds (op :: A) = kinds A := by
  cases op <;> simp_all [kinds, isRecv]

/-- effect of a safe operation that is not a read -/
theorem step_nonrecv (op : Op) (s : St) (hr : isRecv op = false) (hs : safeOp op = true) (hrun : s.done = false) :
    (step op s).rs = s.rs ∧ (step op s).consumed = s.consumed ∧ (step op s).blocked = false ∧
    ((step op s).exit = none ∨ Dead (step op s)) ∧
    (∀ x ∈ (step op s).sessions, x ∈ s.sessions ∨ x = s.consumed) ∧
    (∀ t, Out.line t ∈ (step op s).printed → Out.line t ∈ s.printed ∨ op = Op.print t) ∧
    (step op s).sleptMs ≤ s.sleptMs + sleepTotal [op] := by
  have hb : s.blocked = false := by
    simp [St.done] at hrun; exact hrun.2
  have he : s.exit = none := by
    simp [St.done] at hrun; exact hrun.1
  cases op with
  | recv => simp [isRecv] at hr
  | build f c e => simp +contextual [step, hb, he, sleepTotal]
  | write n nas c e =>
    simp only [safeOp] at hs
    subst hs
    by_cases hc : s.isClosed = true
    · simp +contextual [step, hc, St.fail, hb, Dead, sleepTotal]
    · simp +contextual [step, hc, hb, he, sleepTotal]
  | derive d src => simp +contextual [step, hb, he, sleepTotal]
  | use v g e =>
    simp only [step]
    cases lookupVal s.env v <;> cases g <;> simp +contextual [St.fail, St.panic, hb, he, Dead, sleepTotal]
  | sleep ms => simp +contextual [step, hb, he, sleepTotal]
  | print t =>
    simp only [step]
    refine ⟨trivial, trivial, hb, Or.inl he, ?_, ?_, ?_⟩
    · intro x hx; exact Or.inl hx
    · intro t' ht'
      simp only [List.mem_append, List.mem_singleton, Out.line.injEq] at ht'
      rcases ht' with h | h
      · exact Or.inl h
      · exact Or.inr (by rw [h])
    · simp [sleepTotal]
  | report =>
    simp only [step]
    refine ⟨trivial, trivial, hb, Or.inl he, ?_, ?_, ?_⟩
    · intro x hx
      simp only [List.mem_append, List.mem_singleton] at hx
      exact hx
    · intro t ht; exact Or.inl ht
    · simp [sleepTotal]
  | closeConn => simp +contextual [step, hb, he, sleepTotal]
  | exit c =>
    simp only [safeOp, bne_iff_ne, ne_eq] at hs
    simp +contextual [step, hb, Dead, hs, sleepTotal]
  | append l => simp +contextual [step, hb, he, sleepTotal]
  | need l i =>
    simp only [step]
    split <;> simp +contextual [St.panic, hb, he, Dead, sleepTotal]
  | bad w => simp [safeOp] at hs

/-- **Core of fail-stop.** `A` is any list of safe operations, `s` any running state. If the reply that the `j`-th read
    of `A` will consume is a fault (the peer closed; or undecodable octets at a read whose decoder error is checked),
    then running `A` terminates the process with a non-zero status, no read is performed after that one, no session is
    reported after it, only lines of `A` itself are printed, and the time slept is bounded by `A`'s sleeps.
    No assumption is made about the other replies. -/
theorem failstop_core (A : List Op) (hA : ∀ op ∈ A, safeOp op = true) :
    ∀ (s : St) (j : Nat), s.done = false → j < (kinds A).length →
      (∃ r, s.rs[j]? = some r ∧ isFault ((kinds A)[j]?.getD false) r = true) →
      Stopped s (exec A s) j A := by
  induction A with
  | nil => intro s j _ hj; simp [kinds] at hj
  | cons op rest ih =>
    intro s j hrun hj hf
    have hrest : ∀ op ∈ rest, safeOp op = true := fun o ho => hA o (List.mem_cons_of_mem _ ho)
    have hop : safeOp op = true := hA op List.mem_cons_self
    rw [exec_cons_running op rest s hrun]
    by_cases hr : isRecv op = true
    · -- a read
      cases op with
      | recv rc er decoded var dc ed =>
        simp only [safeOp, Bool.and_eq_true, Bool.or_eq_true, Option.isNone_iff_eq_none] at hop
        obtain ⟨hrc, hdv⟩ := hop
        subst hrc
        have hb : s.blocked = false := by simp [St.done] at hrun; exact hrun.2
        have he : s.exit = none := by simp [St.done] at hrun; exact hrun.1
        by_cases hc : s.isClosed = true
        · -- already closed: EOF, checked
          have hd : (step (Op.recv true er decoded var dc ed) s).done = true := by simp [step, hc, St.fail, St.done]
          rw [exec_done _ _ hd]
          refine ⟨?_, ?_, ?_, ?_, ?_⟩
          · simp [step, hc, St.fail, Dead]
          · simp [step, hc, St.fail]; omega
          · intro x hx; simp [step, hc, St.fail] at hx; exact Or.inl hx
          · intro t ht; simp [step, hc, St.fail] at ht; exact Or.inl ht
          · simp [step, hc, St.fail]
        · obtain ⟨r, hrj, hfault⟩ := hf
          cases hrs : s.rs with
          | nil => simp [hrs] at hrj
          | cons r0 rs' =>
            -- continuation used by the surviving cases
            have cont : ∀ (s' : St), s'.done = false → s'.rs = rs' → s'.consumed = s.consumed + 1 →
                s'.sessions = s.sessions → s'.printed = s.printed → s'.sleptMs = s.sleptMs → 0 < j →
                Stopped s (exec rest s') j (Op.recv true er decoded var dc ed :: rest) := by
              intro s' hrun' hrs' hcons hsess hpr hsl hj0
              obtain ⟨j', rfl⟩ : ∃ j', j = j' + 1 := ⟨j - 1, by omega⟩
              have hj' : j' < (kinds rest).length := by simpa [kinds] using hj
              have hf' : ∃ r, s'.rs[j']? = some r ∧ isFault ((kinds rest)[j']?.getD false) r = true := by
                refine ⟨r, ?_, ?_⟩
                · rw [hrs']; simpa [hrs] using hrj
                · simpa [kinds] using hfault
              have st := ih hrest s' j' hrun' hj' hf'
              refine ⟨st.dead, ?_, ?_, ?_, ?_⟩
              · have := st.consumed; omega
              · intro x hx
                rcases st.sessions x hx with h | h
                · exact Or.inl (hsess ▸ h)
                · exact Or.inr (by omega)
              · intro t ht
                rcases st.printed t ht with h | h
                · exact Or.inl (hpr ▸ h)
                · exact Or.inr (List.mem_cons_of_mem _ h)
              · have := st.slept; simp [sleepTotal] at *; omega
            have hr0 : j = 0 → r = r0 := by
              intro h0; subst h0; simp [hrs] at hrj; exact hrj.symm
            have stopNow : ∀ (s' : St), Dead s' → s'.consumed = s.consumed + 1 → s'.sessions = s.sessions →
                (∀ t, Out.line t ∈ s'.printed → Out.line t ∈ s.printed) → s'.sleptMs = s.sleptMs →
                Stopped s (exec rest s') j (Op.recv true er decoded var dc ed :: rest) := by
              intro s' hd hcons hsess hpr hsl
              rw [exec_done _ _ (dead_done hd)]
              refine ⟨hd, by omega, ?_, ?_, by simp [hsl]⟩
              · intro x hx; exact Or.inl (hsess ▸ hx)
              · intro t ht; exact Or.inl (hpr t ht)
            cases r0 with
            | closed =>
              apply stopNow
              · simp [step, hc, hrs, St.fail, Dead]
              · simp [step, hc, hrs, St.fail]
              · simp [step, hc, hrs, St.fail]
              · intro t ht; simpa [step, hc, hrs, St.fail] using ht
              · simp [step, hc, hrs, St.fail]
            | garbage =>
              by_cases hstrict : (decoded && dc) = true
              · simp only [Bool.and_eq_true] at hstrict
                obtain ⟨hd1, hd2⟩ := hstrict
                subst hd1; subst hd2
                apply stopNow
                · simp [step, hc, hrs, St.decodeFail, St.fail, Dead]
                · simp [step, hc, hrs, St.decodeFail, St.fail]
                · simp [step, hc, hrs, St.decodeFail, St.fail]
                · intro t ht; simpa [step, hc, hrs, St.decodeFail, St.fail] using ht
                · simp [step, hc, hrs, St.decodeFail, St.fail]
              · have hvar : var = none := by
                  rcases hdv with h | h
                  · exact absurd (by simp [h.1, h.2]) hstrict
                  · exact h
                subst hvar
                have hj0 : 0 < j := by
                  rcases Nat.eq_zero_or_pos j with h0 | h0
                  · have := hr0 h0; subst this; subst h0
                    simp [kinds, isFault] at hfault
                    simp [hfault] at hstrict
                  · exact h0
                have hst : step (Op.recv true er decoded none dc ed) s =
                    { s with rs := rs', consumed := s.consumed + 1, dl := s.dl + 1 } := by
                  simp only [Bool.and_eq_true, not_and, Bool.not_eq_true] at hstrict
                  cases decoded <;> cases dc <;> simp_all [step, St.decodeFail, St.bind]
                rw [hst]
                apply cont
                · simp [St.done, hb, he]
                · rfl
                · rfl
                · rfl
                · rfl
                · rfl
                · exact hj0
            | ok =>
              have hj0 : 0 < j := by
                rcases Nat.eq_zero_or_pos j with h0 | h0
                · have := hr0 h0; subst this; simp [isFault] at hfault
                · exact h0
              apply cont
              · cases var <;> simp [step, hc, hrs, St.bind, St.done, hb, he]
              · cases var <;> simp [step, hc, hrs, St.bind]
              · cases var <;> simp [step, hc, hrs, St.bind]
              · cases var <;> simp [step, hc, hrs, St.bind]
              · cases var <;> simp [step, hc, hrs, St.bind]
              · cases var <;> simp [step, hc, hrs, St.bind]
              · exact hj0
            | other =>
              have hj0 : 0 < j := by
                rcases Nat.eq_zero_or_pos j with h0 | h0
                · have := hr0 h0; subst this; simp [isFault] at hfault
                · exact h0
              apply cont
              · cases var <;> simp [step, hc, hrs, St.bind, St.done, hb, he]
              · cases var <;> simp [step, hc, hrs, St.bind]
              · cases var <;> simp [step, hc, hrs, St.bind]
              · cases var <;> simp [step, hc, hrs, St.bind]
              · cases var <;> simp [step, hc, hrs, St.bind]
              · cases var <;> simp [step, hc, hrs, St.bind]
              · exact hj0
      | _ => simp [isRecv] at hr
    · -- any other operation
      have hr' : isRecv op = false := by simpa using hr
      obtain ⟨hrs, hcons, hbl, hex, hsess, hpr, hsl⟩ := step_nonrecv op s hr' hop hrun
      rw [kinds_cons_nonrecv op rest hr'] at hj hf
      rcases hex with hnone | hdead
      · have hrun' : (step op s).done = false := by simp [St.done, hnone, hbl]
        have st := ih hrest (step op s) j hrun' hj (by rw [hrs]; exact hf)
        refine ⟨st.dead, ?_, ?_, ?_, ?_⟩
        · have := st.consumed; omega
        · intro x hx
          rcases st.sessions x hx with h | h
          · rcases hsess x h with h' | h'
            · exact Or.inl h'
            · exact Or.inr (by omega)
          · exact Or.inr (by omega)
        · intro t ht
          rcases st.printed t ht with h | h
          · rcases hpr t h with h' | h'
            · exact Or.inl h'
            · exact Or.inr (h' ▸ List.mem_cons_self)
          · exact Or.inr (List.mem_cons_of_mem _ h)
        · have := st.slept
          have e : sleepTotal (op :: rest) = sleepTotal [op] + sleepTotal rest := by
            cases op <;> simp [sleepTotal]
          omega
      · rw [exec_done _ _ (dead_done hdead)]
        refine ⟨hdead, by omega, ?_, ?_, ?_⟩
        · intro x hx
          rcases hsess x hx with h | h
          · exact Or.inl h
          · exact Or.inr (by omega)
        · intro t ht
          rcases hpr t ht with h | h
          · exact Or.inl h
          · exact Or.inr (h ▸ List.mem_cons_self)
        · have e : sleepTotal (op :: rest) = sleepTotal [op] + sleepTotal rest := by
            cases op <;> simp [sleepTotal]
          omega

/-! ### the peer closes between two uplink messages -/

def isWrite : Op → Bool
  | .write .. => true
  | _ => false

theorem writes_cons_other (op : Op) (A : List Op) (h : isWrite op = false) : writes (op :: A) = writes A := by
  cases op <;> simp_all [writes, isWrite]

theorem step_other (op : Op) (s : St) (hr : isRecv op = false) (hw : isWrite op = false) :
    (step op s).ulLeft = s.ulLeft ∧ (step op s).ul = s.ul ∧ (step op s).peerClosed = s.peerClosed := by
  cases op with
  | recv => simp [isRecv] at hr
  | write => simp [isWrite] at hw
  | use v g e =>
    simp only [step]
    cases lookupVal s.env v <;> cases g <;> simp [St.fail, St.panic]
  | need l i => simp only [step]; split <;> simp [St.panic]
  | _ => simp [step]

structure StoppedC (s o : St) (w : Nat) (A : List Op) : Prop where
  dead : Dead o
  printed : ∀ t, Out.line t ∈ o.printed → Out.line t ∈ s.printed ∨ Op.print t ∈ A
  ul : o.ul.length ≤ s.ul.length + w

/-- **The peer closes after accepting `w` more uplink messages.** If the program still has more than `w` writes to do
    in `A` and the peer answers every read until then, the process terminates with a non-zero status: the next write
    meets EPIPE or the next read meets EOF, and both are checked. -/
theorem failstop_close_after (A : List Op) (hA : ∀ op ∈ A, safeOp op = true) :
    ∀ (s : St) (w : Nat), s.done = false → s.ulLeft = some w → w < writes A → (kinds A).length ≤ s.rs.length →
      StoppedC s (exec A s) w A := by
  induction A with
  | nil => intro s w _ _ hw; simp [writes] at hw
  | cons op rest ih =>
    intro s w hrun hul hw hlen
    have hrest : ∀ op ∈ rest, safeOp op = true := fun o ho => hA o (List.mem_cons_of_mem _ ho)
    have hop : safeOp op = true := hA op List.mem_cons_self
    have hb : s.blocked = false := by simp [St.done] at hrun; exact hrun.2
    have he : s.exit = none := by simp [St.done] at hrun; exact hrun.1
    rw [exec_cons_running op rest s hrun]
    -- lifting the induction hypothesis over one surviving step
    have lift : ∀ (s' : St) (w' : Nat), s'.done = false → s'.ulLeft = some w' → w' < writes rest →
        (kinds rest).length ≤ s'.rs.length →
        (∀ t, Out.line t ∈ s'.printed → Out.line t ∈ s.printed ∨ op = Op.print t) →
        s'.ul.length + w' ≤ s.ul.length + w →
        StoppedC s (exec rest s') w (op :: rest) := by
      intro s' w' h1 h2 h3 h4 hpr hulen
      have st := ih hrest s' w' h1 h2 h3 h4
      refine ⟨st.dead, ?_, ?_⟩
      · intro t ht
        rcases st.printed t ht with h | h
        · rcases hpr t h with h' | h'
          · exact Or.inl h'
          · exact Or.inr (h' ▸ List.mem_cons_self)
        · exact Or.inr (List.mem_cons_of_mem _ h)
      · have := st.ul; omega
    have stopNow : ∀ (s' : St), Dead s' → (∀ t, Out.line t ∈ s'.printed → Out.line t ∈ s.printed ∨ op = Op.print t) →
        s'.ul = s.ul → StoppedC s (exec rest s') w (op :: rest) := by
      intro s' hd hpr hu
      rw [exec_done _ _ (dead_done hd)]
      refine ⟨hd, ?_, by simp [hu]⟩
      intro t ht
      rcases hpr t ht with h | h
      · exact Or.inl h
      · exact Or.inr (h ▸ List.mem_cons_self)
    by_cases hr : isRecv op = true
    · cases op with
      | recv rc er decoded var dc ed =>
        simp only [safeOp, Bool.and_eq_true, Bool.or_eq_true, Option.isNone_iff_eq_none] at hop
        obtain ⟨hrc, hdv⟩ := hop
        subst hrc
        have hw' : w < writes rest := by simpa [writes] using hw
        by_cases hc : s.isClosed = true
        · apply stopNow
          · simp [step, hc, St.fail, Dead]
          · intro t ht; simp [step, hc, St.fail] at ht; exact Or.inl ht
          · simp [step, hc, St.fail]
        · cases hrs : s.rs with
          | nil => simp [hrs, kinds] at hlen
          | cons r0 rs' =>
            have hlen' : (kinds rest).length ≤ rs'.length := by simp [hrs, kinds] at hlen; omega
            have surv : ∀ (s' : St), s'.done = false → s'.ulLeft = s.ulLeft → s'.rs = rs' → s'.printed = s.printed →
                s'.ul = s.ul → StoppedC s (exec rest s') w (Op.recv true er decoded var dc ed :: rest) := by
              intro s' h1 h2 h3 h4 h5
              apply lift s' w h1 (h2 ▸ hul) hw' (h3 ▸ hlen')
              · intro t ht; exact Or.inl (h4 ▸ ht)
              · simp [h5]
            cases r0 with
            | closed =>
              apply stopNow
              · simp [step, hc, hrs, St.fail, Dead]
              · intro t ht; simp [step, hc, hrs, St.fail] at ht; exact Or.inl ht
              · simp [step, hc, hrs, St.fail]
            | garbage =>
              by_cases hstrict : (decoded && dc) = true
              · simp only [Bool.and_eq_true] at hstrict
                obtain ⟨hd1, hd2⟩ := hstrict
                subst hd1; subst hd2
                apply stopNow
                · simp [step, hc, hrs, St.decodeFail, St.fail, Dead]
                · intro t ht; simp [step, hc, hrs, St.decodeFail, St.fail] at ht; exact Or.inl ht
                · simp [step, hc, hrs, St.decodeFail, St.fail]
              · have hvar : var = none := by
                  rcases hdv with h | h
                  · exact absurd (by simp [h.1, h.2]) hstrict
                  · exact h
                subst hvar
                have hst : step (Op.recv true er decoded none dc ed) s =
                    { s with rs := rs', consumed := s.consumed + 1, dl := s.dl + 1 } := by
                  simp only [Bool.and_eq_true, not_and, Bool.not_eq_true] at hstrict
                  cases decoded <;> cases dc <;> simp_all [step, St.decodeFail, St.bind]
                rw [hst]
                apply surv
                · simp [St.done, hb, he]
                all_goals rfl
            | ok =>
              apply surv
              all_goals (cases var <;> simp [step, hc, hrs, St.bind, St.done, hb, he])
            | other =>
              apply surv
              all_goals (cases var <;> simp [step, hc, hrs, St.bind, St.done, hb, he])
      | _ => simp [isRecv] at hr
    · have hr' : isRecv op = false := by simpa using hr
      rw [kinds_cons_nonrecv op rest hr'] at hlen
      by_cases hwr : isWrite op = true
      · cases op with
        | write n nas c e =>
          simp only [safeOp] at hop
          subst hop
          by_cases hc : s.isClosed = true
          · apply stopNow
            · simp [step, hc, St.fail, Dead]
            · intro t ht; simp [step, hc, St.fail] at ht; exact Or.inl ht
            · simp [step, hc, St.fail]
          · -- the peer accepts this message: w ≥ 1
            have hw0 : w ≠ 0 := by
              intro h0; subst h0
              simp [St.isClosed, hul] at hc
            obtain ⟨w', rfl⟩ : ∃ w', w = w' + 1 := ⟨w - 1, by omega⟩
            have hst : step (Op.write n nas true e) s =
                { s with ul := s.ul ++ [(n, nas, s.consumed)], ulLeft := some w' } := by
              simp [step, hc, hul]
            rw [hst]
            apply lift _ w'
            · simp [St.done, hb, he]
            · rfl
            · simp [writes] at hw; omega
            · exact hlen
            · intro t ht; exact Or.inl ht
            · simp; omega
        | _ => simp [isWrite] at hwr
      · have hwr' : isWrite op = false := by simpa using hwr
        obtain ⟨hrs, _, hbl, hex, _, hpr, _⟩ := step_nonrecv op s hr' hop hrun
        obtain ⟨hu1, hu2, _⟩ := step_other op s hr' hwr'
        rw [writes_cons_other op rest hwr'] at hw
        rcases hex with hnone | hdead
        · apply lift (step op s) w
          · simp [St.done, hnone, hbl]
          · rw [hu1, hul]
          · exact hw
          · rw [hrs]; exact hlen
          · exact hpr
          · simp [hu2]
        · exact stopNow _ hdead hpr hu2

/-! ### flattening: per-piece facts lift to the whole run, for every configuration -/

def stmtSafe (procs : List (String × List Act)) : Stmt → Bool
  | .act a => (fuse [a]).all safeOp
  | .call p _ => (procOps procs p).all safeOp
  | .append _ => true

def itemSafe (procs : List (String × List Act)) : MainItem → Bool
  | .stmt s => stmtSafe procs s
  | .loop _ body => body.all (stmtSafe procs)

theorem safe_flatStmt (procs : List (String × List Act)) (st : Stmt) (h : stmtSafe procs st = true) (i : Nat) :
    ∀ op ∈ flatStmt procs i st, safeOp op = true := by
  intro op hop
  cases st with
  | act a => simp only [stmtSafe, List.all_eq_true] at h; exact h op hop
  | call p needs =>
    simp only [stmtSafe, List.all_eq_true] at h
    simp only [flatStmt, List.mem_append, List.mem_map] at hop
    rcases hop with ⟨l, _, rfl⟩ | hop
    · rfl
    · exact h op hop
  | append l => simp only [flatStmt, List.mem_singleton] at hop; subst hop; rfl

theorem safe_flatItem (procs : List (String × List Act)) (c : Counts) (it : MainItem) (h : itemSafe procs it = true) :
    ∀ op ∈ flatItem procs c it, safeOp op = true := by
  intro op hop
  cases it with
  | stmt s => exact safe_flatStmt procs s h 0 op hop
  | loop b body =>
    simp only [itemSafe, List.all_eq_true] at h
    simp only [flatItem, List.mem_flatMap] at hop
    obtain ⟨i, _, st, hst, hop⟩ := hop
    exact safe_flatStmt procs st (h st hst) i op hop

theorem safe_flatItems (procs : List (String × List Act)) (c : Counts) (items : List MainItem)
    (h : items.all (itemSafe procs) = true) : ∀ op ∈ flatItems procs c items, safeOp op = true := by
  intro op hop
  simp only [flatItems, List.mem_flatMap] at hop
  obtain ⟨it, hit, hop⟩ := hop
  exact safe_flatItem procs c it (List.all_eq_true.mp h it hit) op hop

theorem flatItems_append (procs : List (String × List Act)) (c : Counts) (a b : List MainItem) :
    flatItems procs c (a ++ b) = flatItems procs c a ++ flatItems procs c b := by
  simp [flatItems, List.flatMap_append]

/-! ### the kinds of the reads of a flattened run -/

theorem kinds_append (A B : List Op) : kinds (A ++ B) = kinds A ++ kinds B := by
  induction A with
  | nil => simp [kinds]
  | cons a as ih => cases a <;> simp [kinds, ih]

theorem kinds_flatMap {α : Type} (l : List α) (f : α → List Op) : kinds (l.flatMap f) = l.flatMap (fun x => kinds (f x)) := by
  induction l with
  | nil => simp [kinds]
  | cons x xs ih => simp [List.flatMap_cons, kinds_append, ih]

theorem kinds_flatStmt (procs : List (String × List Act)) (i : Nat) (st : Stmt) :
    kinds (flatStmt procs i st) = kinds (flatStmt procs 0 st) := by
  cases st with
  | call p needs =>
    simp only [flatStmt, kinds_append]
    congr 1
    induction needs with
    | nil => rfl
    | cons l ls ih => simpa [kinds] using ih
  | _ => rfl

/-- `n` copies of `K` -/
def rep {α : Type} (n : Nat) (K : List α) : List α := (List.range n).flatMap (fun _ => K)

theorem rep_zero {α : Type} (K : List α) : rep 0 K = [] := by simp [rep]

theorem rep_succ {α : Type} (n : Nat) (K : List α) : rep (n + 1) K = rep n K ++ K := by
  simp [rep, List.range_succ, List.flatMap_append]

theorem rep_length {α : Type} (n : Nat) (K : List α) : (rep n K).length = n * K.length := by
  induction n with
  | zero => simp [rep_zero]
  | succ n ih => simp [rep_succ, ih, Nat.succ_mul]

theorem mem_rep {α : Type} {n : Nat} {K : List α} {x : α} (h : x ∈ rep n K) : x ∈ K := by
  simp only [rep, List.mem_flatMap] at h
  obtain ⟨_, _, hx⟩ := h
  exact hx

theorem rep_comm {α : Type} (n : Nat) (K : List α) : rep n K ++ K = K ++ rep n K := by
  induction n with
  | zero => simp [rep_zero]
  | succ n ih => rw [rep_succ, ih, List.append_assoc, ih]

theorem rep_succ' {α : Type} (n : Nat) (K : List α) : rep (n + 1) K = K ++ rep n K := by
  rw [rep_succ, rep_comm]

/-- positions of `false` in `n` copies of `[true, true, true, false]` followed by a list of `true`s -/
theorem false_positions (n : Nat) (T : List Bool) (hT : ∀ x ∈ T, x = true) :
    ∀ k, (rep n [true, true, true, false] ++ T)[k]? = some false ↔ ∃ i, i < n ∧ k = 4 * i + 3 := by
  induction n with
  | zero =>
    intro k
    simp only [rep_zero, List.nil_append]
    constructor
    · intro h
      have := hT false (List.mem_of_getElem? h)
      simp at this
    · rintro ⟨i, hi, _⟩; omega
  | succ n ih =>
    intro k
    rw [rep_succ', List.append_assoc]
    match k with
    | 0 => simp
    | 1 => simp
    | 2 => simp
    | 3 => simp; exact ⟨0, by omega, by omega⟩
    | k + 4 =>
      have : ([true, true, true, false] ++ (rep n [true, true, true, false] ++ T))[k + 4]? =
          (rep n [true, true, true, false] ++ T)[k]? := by
        simp [List.getElem?_cons_succ]
      rw [this, ih k]
      constructor
      · rintro ⟨i, hi, hk⟩; exact ⟨i + 1, by omega, by omega⟩
      · rintro ⟨i, hi, hk⟩
        match i with
        | 0 => omega
        | i + 1 => exact ⟨i, by omega, by omega⟩

def itemKinds (procs : List (String × List Act)) (c : Counts) : MainItem → List Bool
  | .stmt s => kinds (flatStmt procs 0 s)
  | .loop b body => rep (b.eval c).toNat (kinds (body.flatMap (flatStmt procs 0)))

theorem kinds_flatItem (procs : List (String × List Act)) (c : Counts) (it : MainItem) :
    kinds (flatItem procs c it) = itemKinds procs c it := by
  cases it with
  | stmt s => rfl
  | loop b body =>
    simp only [flatItem, itemKinds, rep, kinds_flatMap, kinds_flatStmt procs _ _]

theorem kinds_flatItems (procs : List (String × List Act)) (c : Counts) (items : List MainItem) :
    kinds (flatItems procs c items) = items.flatMap (itemKinds procs c) := by
  simp only [flatItems, kinds_flatMap, kinds_flatItem]

/-- likewise for the number of writes -/
theorem writes_append (A B : List Op) : writes (A ++ B) = writes A + writes B := by
  induction A with
  | nil => simp [writes]
  | cons a as ih => cases a <;> simp [writes, ih] <;> omega

theorem writes_flatMap {α : Type} (l : List α) (f : α → List Op) :
    writes (l.flatMap f) = (l.map (fun x => writes (f x))).sum := by
  induction l with
  | nil => simp [writes]
  | cons x xs ih => simp [List.flatMap_cons, writes_append, ih]

theorem writes_flatStmt (procs : List (String × List Act)) (i : Nat) (st : Stmt) :
    writes (flatStmt procs i st) = writes (flatStmt procs 0 st) := by
  cases st with
  | call p needs =>
    simp only [flatStmt, writes_append]
    congr 1
    induction needs with
    | nil => rfl
    | cons l ls ih => simpa [writes] using ih
  | _ => rfl

theorem sum_const (n w : Nat) : ((List.range n).map (fun _ => w)).sum = n * w := by
  induction n with
  | zero => simp
  | succ n ih => simp [List.range_succ, ih, Nat.succ_mul]

def itemWrites (procs : List (String × List Act)) (c : Counts) : MainItem → Nat
  | .stmt s => writes (flatStmt procs 0 s)
  | .loop b body => (b.eval c).toNat * writes (body.flatMap (flatStmt procs 0))

theorem writes_flatItem (procs : List (String × List Act)) (c : Counts) (it : MainItem) :
    writes (flatItem procs c it) = itemWrites procs c it := by
  cases it with
  | stmt s => rfl
  | loop b body =>
    simp only [flatItem, itemWrites, writes_flatMap, writes_flatStmt procs _ _]
    exact sum_const _ _

theorem foldl_add (l : List Nat) : ∀ a, l.foldl (· + ·) a = a + l.sum := by
  induction l with
  | nil => simp
  | cons x xs ih => intro a; simp [List.foldl_cons, ih, Nat.add_assoc]

/-- (a left fold: the closed form is then a definitional unfolding, whatever the number of statements without writes) -/
theorem writes_flatItems (procs : List (String × List Act)) (c : Counts) (items : List MainItem) :
    writes (flatItems procs c items) = (items.map (itemWrites procs c)).foldl (· + ·) 0 := by
  simp only [flatItems, writes_flatMap, writes_flatItem, foldl_add, Nat.zero_add]

end Stgutg.Proofs.FailStop
