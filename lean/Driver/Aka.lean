import Driver.Util
import Stgutg.Model.KeyDerivation
import Stgutg.Spec.Ts33501A
import Stgutg.Crypto.Prims
namespace Driver
open Stgutg
open Stgutg.Model.KeyDerivation

namespace Aka
def P : Prims := Crypto.prims
def E : Spec.Ts35206.Cipher := Crypto.aes128
def H : Spec.Ts33501A.Mac := Crypto.hmacSha256

def allDigits (b : Bytes) : Bool := b.all isDigit

/-- the canonical IMSI-based SUPI "imsi-<5..15 digits>" → the digits -/
def canonicalSupi (supi : Bytes) : Option Bytes :=
  let ds := supi.drop 5
  if supi.take 5 = str ['i', 'm', 's', 'i', '-'] && allDigits ds && 5 ≤ ds.length && ds.length ≤ 15 then some ds else none

def plmnOk (mcc mnc : Bytes) : Bool :=
  mcc.length == 3 && allDigits mcc && (mnc.length == 2 || mnc.length == 3) && allDigits mnc

def hex16 (s : Bytes) : Option Bytes :=
  match hexDecode s with
  | some b => if b.length = 16 then some b else none
  | none => none

def resKeys : Res UeKeys → String
  | .ok u => "ok " ++ toHex u.resStar ++ " " ++ toHex u.kamf ++ " " ++ toHex u.knasEnc ++ " " ++ toHex u.knasInt
  | .error e => e.tag

/-- `aka_derive <supi> <cipheringAlg> <integrityAlg> <AMF str> <K str> <OPc str> <OP str> <autn> <rand> <snName> <mnc> <mcc>`
    (strings as the hex of their octets) → `ok <RES*> <Kamf> <KnasEnc> <KnasInt>` -/
def derive : Handler
  | [supi, ca, ia, amfS, kS, opcS, opS, autn, rand, snn, mnc, mcc] =>
    match hexArg supi, natArg ca, natArg ia, hexArg amfS, hexArg kS, hexArg opcS, hexArg opS,
          hexArg autn, hexArg rand, hexArg snn, hexArg mnc, hexArg mcc with
    | some supi, some ca, some ia, some amfS, some kS, some opcS, some opS,
      some autn, some rand, some snn, some mnc, some mcc =>
      let ca8 := UInt8.ofNat ca
      let ia8 := UInt8.ofNat ia
      let m := resKeys (DeriveRESstarAndSetKey P supi ca8 ia8 ⟨amfS, kS, opcS, opS⟩ autn rand snn mnc mcc)
      -- the specification's domain: well-formed subscription data, a canonical IMSI SUPI, a PLMN of digits and the
      -- serving network name of that PLMN
      let opc? : Option Bytes :=
        match hex16 kS with
        | none => none
        | some k => if opcS.isEmpty then (hex16 opS).map (Spec.Ts35206.opc E k) else hex16 opcS
      let amfOk := match hexDecode amfS with | some a => 2 ≤ a.length | none => false
      let s := match hex16 kS, opc?, canonicalSupi supi with
        | some k, some opc, some digits =>
          if amfOk && rand.length == 16 && autn.length == 16 && plmnOk mcc mnc && snn == Spec.Ts33501A.snName mcc mnc
             && ca < 256 && ia < 256 then
            let a := Spec.Ts33501A.aka E H k opc rand (autn.take 6) mcc mnc digits ca8 ia8
            "ok " ++ toHex a.resStar ++ " " ++ toHex a.kamf ++ " " ++ toHex a.knasEnc ++ " " ++ toHex a.knasInt
          else "undef"
        | _, _, _ => "undef"
      (m, s)
    | _, _, _, _, _, _, _, _, _, _, _, _ => badOp
  | _ => badOp

/-- `aka_snname <mnc> <mcc>` → `ok <snName>` as RegisterUE builds it -/
def snname : Handler
  | [mnc, mcc] =>
    match hexArg mnc, hexArg mcc with
    | some mnc, some mcc =>
      ("ok " ++ toHex (snName mnc mcc),
       if plmnOk mcc mnc then "ok " ++ toHex (Spec.Ts33501A.snName mcc mnc) else "undef")
    | _, _ => badOp
  | _ => badOp

/-- `aka_kdf <key> <FC str> <param>…` → GetKDFValue(key, FC, param...) with the parameters as given -/
def kdfRaw : Handler
  | key :: fc :: ps =>
    match hexArg key, hexArg fc, ps.mapM hexArg with
    | some key, some fc, some ps => ("ok " ++ toHex (GetKDFValue P key fc ps), "n/a")
    | _, _, _ => badOp
  | _ => badOp

/-- `aka_kdfp <key> <FC str> <P0> <P1>…` → GetKDFValue(key, FC, P0, KDFLen(P0), P1, KDFLen(P1), …) -/
def kdfP : Handler
  | key :: fc :: ps =>
    match hexArg key, hexArg fc, ps.mapM hexArg with
    | some key, some fc, some ps =>
      ("ok " ++ toHex (GetKDFValue P key fc (ps.flatMap fun p => [p, KDFLen p])),
       match hexDecode fc with
       | some [c] => if ps.all (·.length < 65536) then "ok " ++ toHex (Spec.Ts33501A.kdf H key c ps) else "undef"
       | _ => "undef")
    | _, _, _ => badOp
  | _ => badOp

/-- `aka_kdflen <n>` → KDFLen of an n-octet input -/
def kdfLen : Handler
  | [n] =>
    match natArg n with
    | some n =>
      let p : Bytes := List.replicate n 0
      ("ok " ++ toHex (KDFLen p), if n < 65536 then "ok " ++ toHex (Spec.Ts33501A.lenField p) else "undef")
    | none => badOp
  | _ => badOp

/-- `aka_consts` → the decoded FC constants (K_AUSF, RES*, K_SEAF, K_AMF, algorithm key) and the two distinguishers -/
def consts : Handler
  | [] =>
    let d (s : Bytes) : String := match hexDecode s with | some b => toHex b | none => "?"
    ("ok " ++ d FC_FOR_KAUSF_DERIVATION ++ " " ++ d FC_FOR_RES_STAR_XRES_STAR_DERIVATION ++ " " ++
       d FC_FOR_KSEAF_DERIVATION ++ " " ++ d FC_FOR_KAMF_DERIVATION ++ " " ++ d FC_FOR_ALGORITHM_KEY_DERIVATION ++ " " ++
       toHex [NNASEncAlg] ++ " " ++ toHex [NNASIntAlg],
     "ok " ++ toHex [Spec.Ts33501A.fcKausf] ++ " " ++ toHex [Spec.Ts33501A.fcResStar] ++ " " ++
       toHex [Spec.Ts33501A.fcKseaf] ++ " " ++ toHex [Spec.Ts33501A.fcKamf] ++ " " ++ toHex [Spec.Ts33501A.fcAlgKey] ++ " " ++
       toHex [Spec.Ts33501A.nNasEncAlg] ++ " " ++ toHex [Spec.Ts33501A.nNasIntAlg])
  | _ => badOp

/-- `aka_kamf <supi> <key> <snName> <sqn>` → ue.Kamf after DerivateKamf(key, snName, sqn, nil) -/
def kamfH : Handler
  | [supi, key, snn, sqn] =>
    match hexArg supi, hexArg key, hexArg snn, hexArg sqn with
    | some supi, some key, some snn, some sqn =>
      (resHex (DerivateKamf P supi key snn sqn),
       match canonicalSupi supi with
       | some digits =>
         if snn.length < 65536 && sqn.length < 65536 then
           let kausf := Spec.Ts33501A.kdf H key Spec.Ts33501A.fcKausf [snn, sqn]
           "ok " ++ toHex (Spec.Ts33501A.kamf H (Spec.Ts33501A.kseaf H kausf snn) digits Spec.Ts33501A.abba0)
         else "undef"
       | none => "undef")
    | _, _, _, _ => badOp
  | _ => badOp

/-- `aka_algkey <kamf> <cipheringAlg> <integrityAlg>` → `ok <KnasEnc> <KnasInt>` after DerivateAlgKey -/
def algKeyH : Handler
  | [kamf, ca, ia] =>
    match hexArg kamf, natArg ca, natArg ia with
    | some kamf, some ca, some ia =>
      if ca ≥ 256 || ia ≥ 256 then badOp else
      let ca8 := UInt8.ofNat ca
      let ia8 := UInt8.ofNat ia
      (match DerivateAlgKey P kamf ca8 ia8 with
       | .ok (e, i) => "ok " ++ toHex e ++ " " ++ toHex i
       | .error e => e.tag,
       "ok " ++ toHex (Spec.Ts33501A.algKey H kamf Spec.Ts33501A.nNasEncAlg ca8) ++ " " ++
         toHex (Spec.Ts33501A.algKey H kamf Spec.Ts33501A.nNasIntAlg ia8))
    | _, _, _ => badOp
  | _ => badOp

end Aka

def akaHandlers : List (String × Handler) := [
  ("aka_derive", Aka.derive), ("aka_derive_after", fun a => Aka.derive (a.take 12)), ("aka_derive_twice", fun a => Aka.derive (a.take 12)), ("aka_derive_x", Aka.derive), ("aka_register", Aka.derive), ("aka_snname", Aka.snname),
  ("aka_kdf", Aka.kdfRaw), ("aka_kdfp", Aka.kdfP), ("aka_kdflen", Aka.kdfLen), ("aka_consts", Aka.consts),
  ("aka_kamf", Aka.kamfH), ("aka_algkey", Aka.algKeyH)
]

end Driver
