import Stgutg.Base.Hex
namespace Driver
open Stgutg

/-- A handler maps the argument tokens of one op line to `(model result, spec result)`.
    `"n/a"` as spec result means the op has no separate specification oracle. -/
abbrev Handler := List String → String × String

def badOp : String × String := ("bad-op", "bad-op")

def natArg (s : String) : Option Nat := s.toNat?
def hexArg (s : String) : Option Bytes := ofHex? s

def optHex : Option Bytes → String
  | some b => "ok " ++ toHex b
  | none => "undef"

end Driver
