import Driver.Util
import Driver.Suci
import Stgutg.Model.UeIdentity
import Stgutg.Spec.Ts24501Identity
namespace Driver
open Stgutg Stgutg.Model.UeIdentity
namespace Ue
open Driver.Suci

def countDistinct (l : List Nat) : Nat :=
  let s := l.mergeSort (fun a b => decide (a ≤ b))
  let rec go : List Nat → Nat → Nat
    | a :: b :: rest, n => go (b :: rest) (if a = b then n else n + 1)
    | [_], n => n + 1
    | [], n => n
  go s 0

def bytesKey (b : Bytes) : Nat := b.foldl (fun a x => a * 256 + x.toNat) 1

def b01 (b : Bool) : String := if b then "1" else "0"

/-- `createue <imsi> <ueNumber> <K> <OPC> <OP>` -/
def createUeOp : Handler
  | [imsi, idx, k, opc, op] =>
    match hexArg imsi, intArg idx, hexArg k, hexArg opc, hexArg op with
    | some imsi, some idx, some k, some opc, some op =>
      let ue := createUE imsi idx k opc op
      (String.intercalate " " ["ok", toHex ue.supi, toString ue.ranUeNgapId, toString ue.cipheringAlg.toNat,
         toString ue.integrityAlg.toNat, toHex ue.k, toHex ue.opc, toHex ue.op, toHex ue.amf], "n/a")
    | _, _, _, _, _ => badOp
  | _ => badOp

/-- `uecap <cipheringAlg> <integrityAlg>`; the specification: exactly the 5G-EA / 5G-IA bit of the algorithm -/
def ueCapOp : Handler
  | [c, i] =>
    match natArg c, natArg i with
    | some c, some i =>
      if c ≥ 256 || i ≥ 256 then badOp else
      let cap := getUESecurityCapability (UInt8.ofNat c) (UInt8.ofNat i)
      let m := "ok " ++ toString cap.iei.toNat ++ " " ++ toString cap.len.toNat ++ " " ++ toHex cap.buffer
      let spec :=
        if c ≤ 3 && i ≤ 3 then
          -- IEI 2E, two octets, bit (8 - k) of octet 3 / 4 set iff k is the algorithm
          "ok 46 2 " ++ toHex [UInt8.ofNat (2 ^ (7 - c)), UInt8.ofNat (2 ^ (7 - i))]
        else "undef"
      (m, spec)
    | _, _ => badOp
  | _ => badOp

/-- `uepop <imsi> <mncLen> <n> <K> <OPC> <OP>` -/
def uePopOp : Handler
  | [imsi, mncLen, n, k, opc, op] =>
    match hexArg imsi, natArg mncLen, natArg n, hexArg k, hexArg opc, hexArg op with
    | some imsi, some mncLen, some n, some k, some opc, some op =>
      if n > 20000 || 3 + mncLen > imsi.length then badOp else
      let ues := (List.range n).map fun (j : Nat) => createUE imsi (Int.ofNat j) k opc op
      let prefix_ := imsiPrefix ++ imsi.take (3 + mncLen)
      let sameLen := ues.all fun ue => ue.supi.length == 5 + imsi.length
      let samePrefix := ues.all fun ue => ue.supi.take prefix_.length == prefix_
      let creds := ues.all fun ue => ue.k == k && ue.opc == opc && ue.op == op
      let m := String.intercalate " " ["ok", toString (countDistinct (ues.map fun ue => bytesKey ue.supi)),
        toString (countDistinct (ues.map fun ue => (ue.ranUeNgapId + 2 ^ 63).toNat)), b01 sameLen, b01 samePrefix, b01 creds]
      -- the property's domain: decimal IMSI (at most 18 digits so that Go's int holds it), 2- or 3-digit MNC, at least
      -- one MSIN digit, 1 ≤ n ≤ 10 000 and the MSIN digits can accommodate the population
      let msin := imsi.drop (3 + mncLen)
      let inDomain := imsi.all isDigitByte && (mncLen == 2 || mncLen == 3) && !msin.isEmpty && imsi.length ≤ 18
        && 1 ≤ n && n ≤ 10000 && decVal msin + n ≤ 10 ^ msin.length
      let spec := if inDomain then String.intercalate " " ["ok", toString n, toString n, "1", "1", "1"] else "undef"
      (m, spec)
    | _, _, _, _, _, _ => badOp
  | _ => badOp

/-- `uesuci <imsi> <mncLen> <ueNumber>`; the specification: the null-scheme SUCI of MCC, MNC, MSIN + ueNumber
    (defined while the MSIN digits hold the sum) -/
def ueSuciOp : Handler
  | [imsi, mncLen, idx] =>
    match hexArg imsi, intArg mncLen, intArg idx with
    | some imsi, some mncLen, some idx =>
      let ue := createUE imsi idx [107] [111, 112, 99] [111, 112]
      let m := match Model.Suci.encodeSuci (Model.Suci.trimImsiPrefix ue.supi) mncLen with
        | .ok b => "ok " ++ toHex b
        | .error e => e.tag
      let spec :=
        match splitImsi imsi mncLen with
        | some (mcc, mnc, msin) =>
          let v := msin.foldl (fun a d => a * 10 + d) 0
          if imsi.length ≤ 18 && 0 ≤ idx && v + idx.toNat < 10 ^ msin.length then
            let msin' := (decW msin.length (v + idx.toNat)).map fun c => c.toNat - 48
            match Spec.Identity.encodeSuci (Spec.Identity.nullSchemeSuci mcc mnc msin') with
            | some b => "ok " ++ toHex b
            | none => "undef"
          else "undef"
        | none => "undef"
      (m, spec)
    | _, _, _ => badOp
  | _ => badOp

end Ue
open Ue in
def ueHandlers : List (String × Handler) := [
  ("createue", createUeOp),
  ("uecap", ueCapOp),
  ("uecap2", fun a => ueCapOp (a.take 2)),
  ("uesuci", ueSuciOp),
  ("uepop", uePopOp)
]

end Driver
