import Driver.Util
import Stgutg.Model.FootprintTable
namespace Driver
open Stgutg

/-- `conc G iters seed kinds names`: G goroutines calling the named entry points / builders on their own data.
    Model: `ok same` when the regenerated footprints of the named functions are pairwise interference free
    (`Model.FootprintTable.namesDisjoint`; then `Props.C20.entry_points_noninterference` applies), otherwise
    `may-interfere` (a race or a differing result is possible, not certain).  Specification: `ok same` always —
    that is the property. -/
def conc : Handler
  | [g, iters, seed, _kinds, names] =>
    match natArg g, natArg iters, natArg seed with
    | some g, some _, some _ =>
      if g < 1 || g > 64 then badOp else
      match Model.FootprintTable.namesDisjoint (names.splitOn ",") with
      | none => badOp
      | some true => ("ok same", "ok same")
      | some false => (if g ≥ 2 then "may-interfere" else "ok same", "ok same")
    | _, _, _ => badOp
  | _ => badOp

def concHandlers : List (String × Handler) := [("conc", conc)]

end Driver
