import Driver.Util
import Stgutg.Model.Suci
import Stgutg.Spec.Ts24501Identity
namespace Driver
open Stgutg
namespace Suci

def intArg (s : String) : Option Int := s.toInt?

/-- ASCII digits → digit values; `none` when a byte is not '0'..'9' -/
def digitsOf (b : Bytes) : Option (List Nat) :=
  if b.all (fun c => 48 ≤ c && c ≤ 57) then some (b.map fun c => c.toNat - 48) else none

/-- an IMSI split as the property reads it: 3-digit MCC, `mncLen`-digit MNC (2 or 3), MSIN of at least one digit -/
def splitImsi (imsi : Bytes) (mncLen : Int) : Option (List Nat × List Nat × List Nat) :=
  match digitsOf imsi with
  | some ds =>
    if (mncLen = 2 ∨ mncLen = 3) ∧ ds.length > 3 + mncLen.toNat then
      some (ds.take 3, (ds.drop 3).take mncLen.toNat, ds.drop (3 + mncLen.toNat))
    else none
  | none => none

def resHexLen : Res Bytes → String
  | .ok b => "ok " ++ toHex b ++ " " ++ toString (b.length % 65536)
  | .error e => e.tag

/-- `suci <imsi> <mncLen>` -/
def suciOp : Handler
  | [imsi, mncLen] =>
    match hexArg imsi, intArg mncLen with
    | some imsi, some mncLen =>
      let spec :=
        match splitImsi imsi mncLen with
        | some (mcc, mnc, msin) =>
          match Spec.Identity.encodeSuci (Spec.Identity.nullSchemeSuci mcc mnc msin) with
          | some b => resHexLen (.ok b)
          | none => "undef"
        | none => "undef"
      (resHexLen (Model.Suci.encodeSuci imsi mncLen), spec)
    | _, _ => badOp
  | _ => badOp

/-- `nassuci <imsi> <mncLen>`: the NAS builders carry the identity's `Len ‖ Buffer` unchanged -/
def nasSuciOp : Handler
  | [imsi, mncLen] =>
    match hexArg imsi, intArg mncLen with
    | some imsi, some mncLen =>
      let two (r : Option Bytes) : String := match r with
        | some b => "ok " ++ toHex b ++ " " ++ toHex b
        | none => "undef"
      let spec :=
        match splitImsi imsi mncLen with
        | some (mcc, mnc, msin) => two (Spec.Identity.encodeSuci (Spec.Identity.nullSchemeSuci mcc mnc msin))
        | none => "undef"
      let m := match Model.Suci.encodeSuci imsi mncLen with
        | .ok b => two (some b)
        | .error e => e.tag
      (m, spec)
    | _, _ => badOp
  | _ => badOp

/-- `regsuci <imsi> <mnc> <mcc>`: what RegisterUE sends for UE 0 of a configuration: the SUCI of the IMSI, split with the LENGTH
    of the configured MNC; the values of the configured MNC / MCC do not enter it -/
def regSuciOp : Handler
  | [imsi, mnc, _mcc] =>
    match hexArg mnc with
    | some mnc => nasSuciOp [imsi, toString mnc.length]
    | none => badOp
  | _ => badOp

def plmnSpec (imsi : Bytes) (mncLen : Int) (copies : Nat) : String :=
  match splitImsi (Model.Suci.trimImsiPrefix imsi) mncLen with
  | some (mcc, mnc, _) =>
    match Spec.Identity.plmn3 mcc mnc with
    | some p => "ok" ++ String.join (List.replicate copies (" " ++ toHex p))
    | none => "undef"
  | none => "undef"

/-- `ngplmn <imsi> <mncLen>` -/
def ngPlmnOp : Handler
  | [imsi, mncLen] =>
    match hexArg imsi, intArg mncLen with
    | some imsi, some mncLen =>
      let m := match Model.Suci.ngSetupFields imsi mncLen with
        | .ok f => "ok " ++ toHex f.globalGnb ++ " " ++ toHex f.broadcast ++ " " ++ toHex f.uliNrCgi ++ " " ++ toHex f.uliTai
        | .error e => e.tag
      (m, plmnSpec imsi mncLen 4)
    | _, _ => badOp
  | _ => badOp

/-- `ngplmn2 <imsi> <mncLen> <imsi2> <mncLen2>`: as `ngplmn`, with the SUCI of another subscriber (any PLMN) encoded between NG
    Setup and the later messages. `EncodeSuci` returns a fresh value: the announced PLMN is unaffected (unless the call traps). -/
def ngPlmn2Op : Handler
  | [imsi, mncLen, imsi2, mncLen2] =>
    match hexArg imsi, intArg mncLen, hexArg imsi2, intArg mncLen2 with
    | some imsi, some mncLen, some imsi2, some mncLen2 =>
      let m := match Model.Suci.ngSetupFields imsi mncLen with
        | .ok f =>
          match Model.Suci.encodeSuci imsi2 mncLen2 with
          | .ok _ => "ok " ++ toHex f.globalGnb ++ " " ++ toHex f.broadcast ++ " " ++ toHex f.uliNrCgi ++ " " ++ toHex f.uliTai
          | .error e => e.tag
        | .error e => e.tag
      (m, match Model.Suci.encodeSuci imsi2 mncLen2 with | .ok _ => plmnSpec imsi mncLen 4 | .error _ => "undef")
    | _, _, _, _ => badOp
  | _ => badOp

/-- `ngsetup <imsi> <mnc>`: ManageNGSetup passes `len(mnc)`; the NG SETUP RESPONSE is decoded and discarded, so the user
    location of the later messages names the announced PLMN whatever the AMF lists -/
def ngSetupOp : Handler
  | [imsi, mnc] =>
    match hexArg imsi, hexArg mnc with
    | some imsi, some mnc =>
      let mncLen : Int := mnc.length
      let m := match Model.Suci.ngSetupFields imsi mncLen with
        | .ok f => "ok " ++ toHex f.globalGnb ++ " " ++ toHex f.broadcast ++ " " ++ toHex f.uliNrCgi ++ " " ++ toHex f.uliTai
        | .error e => e.tag
      (m, plmnSpec imsi mncLen 4)
    | _, _ => badOp
  | _ => badOp

end Suci
open Suci in
def suciHandlers : List (String × Handler) := [
  ("suci", suciOp),
  ("nassuci", nasSuciOp),
  ("regsuci", regSuciOp),
  ("ngplmn", ngPlmnOp),
  ("ngplmn2", ngPlmn2Op),
  ("ngsetup", ngSetupOp)
]

end Driver
