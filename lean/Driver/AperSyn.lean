import Driver.Aper
namespace Driver
open Stgutg Stgutg.Aper

/-! Synthetic schemas (harness/cmd/corr/apersyn.go): the op line carries the schema, so the codec model is compared with
    the real codec on struct types no NGAP message uses (BOOLEAN, unconstrained INTEGER, fixed-size SEQUENCE OF, …).

      schema := struct ("|" struct)*      struct := Name "=" [field (";" field)*]      field := Name "~" type "~" tag
      type   := i | e | b | o | s | t | d | S<k> | "*" type | "[" type -/

partial def synTy (cs : List Char) : Option Ty :=
  match cs with
  | ['i'] => some .int
  | ['e'] => some .enum
  | ['b'] => some .bits
  | ['o'] => some .octs
  | ['s'] => some .str
  | ['t'] => some .bool
  | ['d'] => some .oid
  | '*' :: r => (synTy r).map .ptr
  | '[' :: r => (synTy r).map .slice
  | 'S' :: r => (String.ofList r).toNat?.map .struct
  | _ => none

def synField (s : String) : Option Field :=
  match s.splitOn "~" with
  | [n, t, tag] =>
    match synTy t.toList with
    | some ty => if n.isEmpty then none else some { name := n, params := parseParams (if tag.isEmpty then "-" else tag), ty := ty }
    | none => none
  | _ => none

def synStruct (s : String) : Option StructDef :=
  match s.splitOn "=" with
  | [n, body] =>
    if n.isEmpty then none
    else if body.isEmpty then some { name := n, fields := [] }
    else ((body.splitOn ";").mapM synField).map fun fs => { name := n, fields := fs }
  | _ => none

/-- a struct may only mention structs declared before it (the Go side builds the types in this order) -/
partial def tyBelow (k : Nat) : Ty → Bool
  | .struct id => id < k
  | .ptr t => tyBelow k t
  | .slice t => tyBelow k t
  | _ => true

def synSchema (s : String) : Option Env :=
  match (s.splitOn "|").mapM synStruct with
  | some env =>
    if (env.zipIdx).all (fun (sd, k) => sd.fields.all (fun f => tyBelow k f.ty)) then some env else none
  | none => none

def synFuel (env : Env) : Nat := 8 * (env.length + 1) + 1

def synArgs (sch ty ps : String) : Option (Env × Ty × Params) :=
  match synSchema sch, synTy ty.toList with
  | some env, some t => if tyBelow env.length t then some (env, t, parseParams ps) else none
  | _, _ => none

def synEnc : Handler
  | sch :: ty :: ps :: toks =>
    match synArgs sch ty ps, parseVal toks with
    | some (env, t, p), some (v, []) => (resHex (marshal env (synFuel env) t p v), "n/a")
    | _, _ => badOp
  | _ => badOp

def synDec : Handler
  | [sch, ty, ps, hex] =>
    match synArgs sch ty ps, hexArg hex with
    | some (env, t, p), some b => (resVal (unmarshal env (synFuel env) t p b), "n/a")
    | _, _ => badOp
  | _ => badOp

def synRt : Handler
  | sch :: ty :: ps :: toks =>
    match synArgs sch ty ps, parseVal toks with
    | some (env, t, p), some (v, []) =>
      match marshal env (synFuel env) t p v with
      | .error e => (e.tag, "n/a")
      | .ok b =>
        match unmarshal env (synFuel env) t p b with
        | .error .error => ("decerr " ++ toHex b, "n/a")
        | .error e => (e.tag, "n/a")
        | .ok v' =>
          let got := valText v'
          let want := " ".intercalate toks
          if got = want then ("ok " ++ toHex b ++ " same", "n/a") else ("ok " ++ toHex b ++ " diff " ++ got, "n/a")
    | _, _ => badOp
  | _ => badOp

def aperSynHandlers : List (String × Handler) := [("synenc", synEnc), ("syndec", synDec), ("synrt", synRt)]

end Driver
