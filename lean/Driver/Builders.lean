import Driver.Util
import Driver.Aper
import Stgutg.Model.Builders
import Stgutg.Model.NetExt
import Stgutg.Model.AperDec
namespace Driver
open Stgutg Stgutg.Aper Stgutg.Builders

/-!
  Domain `builders` (C13), see harness/cmd/corr/builders.go.

    build    <Name> <plmn|-> <arg tokens…>   model: template + encoder model      spec: n/a
    buildsum <Name> <plmn|-> <arg tokens…>   model: the summary the DECODER MODEL + IE walker find in the model's octets
                                              spec : what the property demands, computed from the ARGUMENTS and the
                                                     TS 38.413 tables only (never from a template)
-/

def bExt : Model.Convert.Ext := Model.NetExt.goExt

def defaultPlmn : Bytes := [0x02, 0xf8, 0x39]

partial def parseVals : List String → List Val → Option (List Val)
  | [], acc => some acc.reverse
  | toks, acc =>
    match parseVal toks with
    | some (v, rest) => if rest.length < toks.length then parseVals rest (v :: acc) else none
    | none => none

def wrapperOf (name : String) : Option Wrapper :=
  [("GetNGSetupRequest", Wrapper.GetNGSetupRequest), ("GetInitialUEMessage", .GetInitialUEMessage),
   ("GetUplinkNASTransport", .GetUplinkNASTransport), ("GetInitialContextSetupResponse", .GetInitialContextSetupResponse),
   ("GetInitialContextSetupResponseForServiceRequest", .GetInitialContextSetupResponseForServiceRequest),
   ("GetPDUSessionResourceSetupResponse", .GetPDUSessionResourceSetupResponse),
   ("GetUEContextReleaseComplete", .GetUEContextReleaseComplete), ("GetUEContextReleaseRequest", .GetUEContextReleaseRequest),
   ("GetPDUSessionResourceReleaseResponse", .GetPDUSessionResourceReleaseResponse), ("GetPathSwitchRequest", .GetPathSwitchRequest),
   ("GetHandoverRequired", .GetHandoverRequired), ("GetHandoverRequestAcknowledge", .GetHandoverRequestAcknowledge),
   ("GetHandoverNotify", .GetHandoverNotify),
   ("GetPDUSessionResourceSetupResponseForPaging", .GetPDUSessionResourceSetupResponseForPaging)].lookup name

def templateOf (name : String) : Option Template := table.find? (fun t => t.name == name)
def sigOf (name : String) : Option Gen.Templates.Sig := Gen.Templates.sigs.find? (fun s => s.name == name)

/-- outcome of an entry point in the model: (class, octets, PDU value if a builder returned one) -/
structure Run where
  cls : String
  octets : Bytes := []
  pdu : Option Val := none

def runEntry (name : String) (plmn : Bytes) (args : List Val) : Option Run :=
  match wrapperOf name with
  | some w =>
    match w.run bExt plmn args with
    | .error .panic => some { cls := "panic" }
    | .error .exit => some { cls := "exit" }
    | .ok (.ok b) => some { cls := "ok", octets := b }
    | .ok (.error e) => some { cls := e.tag }
  | none =>
    match templateOf name with
    | none => none
    | some t =>
      match build bExt t plmn args with
      | .error .panic => some { cls := "panic" }
      | .error .exit => some { cls := "exit" }
      | .ok pdu =>
        match encodePdu pdu with
        | .ok b => some { cls := "ok", octets := b, pdu := some pdu }
        | .error .error => some { cls := "err", pdu := some pdu }
        | .error e => some { cls := e.tag }

def parseOp : List String → Option (String × Bytes × List Val)
  | name :: pl :: toks =>
    let plmn := if pl = "-" then some defaultPlmn else ofHex? pl
    match plmn, parseVals toks [] with
    | some p, some args => some (name, p, args)
    | _, _ => none
  | _ => none

def buildOp : Handler := fun toks =>
  match parseOp toks with
  | none => badOp
  | some (name, plmn, args) =>
    match runEntry name plmn args with
    | none => badOp
    | some r =>
      let head := if r.cls = "ok" then "ok " ++ toHex r.octets else r.cls
      match r.pdu with
      | some v => (head ++ " | " ++ valText v, "n/a")
      | none => (head, "n/a")

/-! ### the reference IE walker over decoded values (type-directed by the schema) -/

structure Summ where
  amf : List String := []
  ran : List String := []
  nas : List String := []
  psi : List String := []
  gnbid : List String := []
  name : List String := []
  tla : List String := []
  plmn : List String := []

def xhex (b : Bytes) : String := "x" ++ (if b.isEmpty then "" else toHex b)

def bitsText (b : Bytes) (n : Nat) : String := toString n ++ ":" ++ toHex (b.take ((n + 7) / 8))

def structName (id : Nat) : String :=
  match schema[id]? with
  | some sd => sd.name
  | none => ""

def record (name : String) (fs : List Val) (s : Summ) : Summ :=
  match name, fs with
  | "AMFUENGAPID", .int n :: _ => { s with amf := s.amf ++ [toString n] }
  | "RANUENGAPID", .int n :: _ => { s with ran := s.ran ++ [toString n] }
  | "NASPDU", .octs b :: _ => { s with nas := s.nas ++ [xhex b] }
  | "PDUSessionID", .int n :: _ => { s with psi := s.psi ++ [toString n] }
  | "RANNodeName", .str b :: _ => { s with name := s.name ++ [xhex b] }
  | "TransportLayerAddress", .bits b n :: _ => { s with tla := s.tla ++ [bitsText b n] }
  | "PLMNIdentity", .octs b :: _ => if s.plmn.contains (xhex b) then s else { s with plmn := s.plmn ++ [xhex b] }
  | "GNBID", .int 1 :: .ptr (.bits b n) :: _ => { s with gnbid := s.gnbid ++ [bitsText b n] }
  | _, _ => s

mutual
partial def walk (ty : Ty) (v : Val) (s : Summ) : Summ :=
  match ty, v with
  | .ptr t, .ptr x => walk t x s
  | .slice t, .slice xs => xs.foldl (fun s x => walk t x s) s
  | .struct id, .struct fs =>
    match schema[id]? with
    | none => s
    | some sd => walkFields sd.name sd.fields fs (record sd.name fs s)
  | _, _ => s
partial def walkFields (owner : String) : List Field → List Val → Summ → Summ
  | f :: frest, v :: vrest, s =>
    let s :=
      match f.ty, v with
      | .octs, .octs b =>
        -- an OCTET STRING named after a transfer type (or the source-to-target container) carries an encoded value
        let inner := if owner = "SourceToTargetTransparentContainer" then "SourceNGRANNodeToTargetNGRANNodeTransparentContainer" else f.name
        if inner = owner then s else
        match typeId inner with
        | some id =>
          match unmarshal schema fuel (.struct id) { valueExt := true } b with
          | .ok x => walk (.struct id) x s
          | .error _ => s
        | none => s
      | t, x => walk t x s
    walkFields owner frest vrest s
  | _, _, s => s
end

def lst (l : List String) : String := if l.isEmpty then "-" else ",".intercalate l

def sortStrings (l : List String) : List String := (l.toArray.qsort (· < ·)).toList

/-- the IE list of a decoded NGAP-PDU: (procedure code, class index, [(IE id, criticality)]) -/
def pduHeader (v : Val) : Option (Int × Nat × List String) :=
  match v with
  | .struct (.int p :: alts) =>
    if p < 1 ∨ p > 3 then none else
    match alts[p.toNat - 1]? with
    | some (.ptr (.struct [.struct [.int code], _, .struct (.int mp :: msgs)])) =>
      let ies :=
        if mp < 1 then [] else
        match msgs[mp.toNat - 1]? with
        | some (.ptr (.struct (.struct [.slice l] :: _))) =>
          l.filterMap fun ie =>
            match ie with
            | .struct [.struct [.int id], .struct [.enum c], _] => some (toString id ++ ":" ++ toString c)
            | _ => none
        | _ => []
      some (code, p.toNat - 1, ies)
    | _ => none
  | _ => none

def summaryOf (octets : Bytes) : String :=
  match unmarshal schema fuel (.struct Gen.Ngap.pduId) Gen.Ngap.decoderParams octets with
  | .error .error => "decerr"
  | .error e => e.tag
  | .ok v =>
    match pduHeader v with
    | none => "decerr"
    | some (code, cls, ies) =>
      let s := walk (.struct Gen.Ngap.pduId) v {}
      s!"ok proc={code} class={cls} ies={lst ies} amf={lst s.amf} ran={lst s.ran} nas={lst s.nas} psi={lst s.psi} gnbid={lst s.gnbid} name={lst s.name} tla={lst s.tla} plmn={lst (sortStrings s.plmn)}"

/-! ### the property, from the arguments -/

open Spec.Ts38413 in
/-- `err` = an identifier is out of range: the call must be refused; `undef` = another argument is outside the
    property's domain; `ok …` / `okv …` = the fields the encoding must show (`okv`: the call embeds caller-supplied
    NGAP values whose encodability is not the property's subject, a refusal is not judged). -/
def specSummary (sg : Gen.Templates.Sig) (plmn : Bytes) (args : List Val) : String :=
  let ra := sg.roles.zip args
  let ints (r : Role) : List Int := ra.filterMap fun (r', v) => if r' = r then (match v with | .int n => some n | _ => none) else none
  let psiList : List Int := (ra.filterMap fun (r', v) => if r' = Role.psilist then (match v with | .slice l => some (l.filterMap fun x => match x with | .int n => some n | _ => none) | _ => none) else none).flatten
  let idsBad := (ints .amf).any (fun v => ¬ (0 ≤ v ∧ v ≤ amfUeNgapIdMax)) || (ints .ran).any (fun v => ¬ (0 ≤ v ∧ v ≤ ranUeNgapIdMax))
      || ((ints .psi) ++ psiList).any (fun v => ¬ (0 ≤ v ∧ v ≤ pduSessionIdMax))
  let bytesAt (r : Role) : Option Bytes := (ra.find? (fun p => p.1 = r)).map fun p => bytesOf p.2
  let hasVal := sg.roles.any (fun r => r = .val || r = .pint || r = .int || r = .str)
  -- domain of the other arguments
  let ipOk := match bytesAt .ip with
    | some s => !s.isEmpty && (match Model.Convert.first4 (Model.Convert.to4 (bExt.parseIP s)) with | .ok _ => true | .error _ => false)
    | none => true
  let tmsiOk := match bytesAt .tmsi with
    | some s => s.isEmpty || (s.length == 12 && cls bExt .tmsi (.str s) == 2)
    | none => true
  let plmnEff : Bytes := match announced sg.roles args with | some p => p | none => plmn
  let plmnOk := plmnEff.length == 3
  let nameOk := match bytesAt .name with | some s => 1 ≤ s.length && s.length ≤ 150 | none => true
  let psiListOk := ra.all fun (r, v) => r != Role.psilist || (match v with | .nil => true | .slice l => !l.isEmpty && l.length ≤ 256 | _ => false)
  let gnb := bytesAt .gnbid
  let bitlen := (ra.find? (fun p => p.1 = Role.bitlen)).map fun p => natOf p.2
  let cell := (ra.find? (fun p => p.1 = Role.cellid)).map fun p => bytesOf p.2
  let gnbOk := match gnb, bitlen, cell with
    | some g, some bl, _ => 22 ≤ bl && bl ≤ 32 && (g.length == 3 || g.length == 4) && g.length == (bl + 7) / 8
    | some g, none, some c => (g.length == 3 || g.length == 4) && g.length + c.length == 5
    | _, _, _ => true
  if !(ipOk && tmsiOk && plmnOk && nameOk && psiListOk && gnbOk) then "undef"
  else if idsBad then "err"
  else
    let (code, cl) := row sg.message
    let mand := match mandatory sg.message with
      | some l => lst (l.map fun (p : Nat × Nat) => toString p.1 ++ ":" ++ toString p.2)
      | none => "-"
    let f (k : String) (l : List String) : String := if l.isEmpty then "" else " " ++ k ++ "=" ++ ",".intercalate l
    let mask (b : Bytes) (n : Nat) : Bytes :=
      let b := b.take ((n + 7) / 8)
      if n % 8 = 0 then b else
      match b.reverse with
      | last :: rest => (UInt8.ofNat ((last.toNat >>> (8 - n % 8)) <<< (8 - n % 8)) :: rest).reverse
      | [] => []
    let gnbTxt : List String := match gnb, bitlen with
      | some g, some bl => [bitsText (mask g bl) bl]
      | some g, none => [bitsText g (8 * g.length)]
      | none, _ => []
    let psiTxt : List String := ((ints .psi) ++ psiList).map toString
    let tlaTxt : List String := match bytesAt .ip with
      | some s => (match Model.Convert.first4 (Model.Convert.to4 (bExt.parseIP s)) with | .ok b => [bitsText b 32] | .error _ => [])
      | none => []
    (if hasVal then "okv" else "ok") ++ s!" proc={code} class={cl.index} mand={mand}"
      ++ f "amf" ((ints .amf).map toString) ++ f "ran" ((ints .ran).map toString)
      ++ f "nas" (match ra.find? (fun p => p.1 = Role.nas) with | some (_, .octs b) => [xhex b] | _ => [])
      ++ f "psi" psiTxt ++ f "gnbid" gnbTxt
      ++ f "name" (match bytesAt .name with | some b => [xhex b] | none => [])
      ++ f "tla" tlaTxt
      -- caller-supplied NGAP values may carry the caller's own PLMNs (NG SETUP RESPONSE, AMF CONFIGURATION UPDATE)
      ++ (if sg.roles.any (fun r => r = .val) then "" else " plmn=" ++ xhex plmnEff)

def buildSumOp : Handler := fun toks =>
  match parseOp toks with
  | none => badOp
  | some (name, plmn, args) =>
    match runEntry name plmn args, sigOf name with
    | some r, some sg =>
      let model := if r.cls = "ok" then summaryOf r.octets else r.cls
      (model, specSummary sg plmn args)
    | _, _ => badOp

def buildersHandlers : List (String × Handler) := [("build", buildOp), ("buildsum", buildSumOp)]

end Driver
