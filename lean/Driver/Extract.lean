import Driver.Util
import Stgutg.Model.Extract
import Stgutg.Spec.SetupRequest
namespace Driver
open Stgutg
open Stgutg.Model.Extract
open Stgutg.Spec.SetupRequest

/-! Domain `extract` (C12). Op formats: see harness/cmd/corr/extract.go. -/

namespace Extract

def resIp : Res Bytes → String
  | .ok b => "ok " ++ toHex b
  | .error e => e.tag

def resTeidIp : Res (Nat × Bytes) → String
  | .ok (t, b) => "ok " ++ toString t ++ " " ++ toHex b
  | .error e => e.tag

/-- `x` = absent -/
def optTok {α : Type} (f : String → Option α) (s : String) : Option (Option α) :=
  if s = "x" then some none else (f s).map some

def u8Arg (s : String) : Option UInt8 := (natArg s).bind fun n => if n < 256 then some (UInt8.ofNat n) else none

/-- the 23 accept tokens → the protected NAS-PDU per the specification, and the PDU address contents -/
def parseAccept : List String → Option (Bytes × Option Bytes)
  | [psi, pti, o5, qos, ambr, cause, addr, rq, sn, ao, mapped, eap, qfd, epco, dnn,
     sht, mac, sqn, pct, psi2, addInfo, c5, bo] => do
    let a : Accept := {
      psi := ← u8Arg psi, pti := ← u8Arg pti, sscAndType := ← u8Arg o5,
      qosRules := ← hexArg qos, ambr := ← hexArg ambr,
      cause := ← optTok u8Arg cause, pduAddress := ← optTok hexArg addr, rqTimer := ← optTok u8Arg rq,
      snssai := ← optTok hexArg sn, alwaysOn := ← optTok u8Arg ao, mappedEps := ← optTok hexArg mapped,
      eap := ← optTok hexArg eap, qosFlowDescr := ← optTok hexArg qfd, epco := ← optTok hexArg epco,
      dnn := ← optTok hexArg dnn }
    let h : SecHeader := { sht := ← u8Arg sht, mac := ← hexArg mac, sqn := ← u8Arg sqn }
    let msg := nasPdu h (← u8Arg pct) a (← optTok u8Arg psi2) (← optTok hexArg addInfo) (← optTok u8Arg c5) (← optTok u8Arg bo)
    pure (msg, a.pduAddress)
  | _ => none

/-- the address the network encoded, when the PDU address IE is an IPv4 one -/
def specIp : Option Bytes → String
  | some (ty :: ip) => if ty &&& 7 = 1 ∧ ip.length = 4 then "ok " ++ toHex ip else "undef"
  | _ => "undef"

def parseQos (s : String) : Option (List QosFlow) :=
  (s.splitOn "+").mapM fun it =>
    match (it.splitOn ".").mapM natArg with
    | some [a, b, c, d, e] => some { qfi := a, fiveQI := b, arp := c, cap := d, vul := e }
    | _ => none

def parseAmbr (s : String) : Option (Nat × Nat) :=
  match (s.splitOn ":").mapM natArg with
  | some [a, b] => some (a, b)
  | _ => none

def parseTransfer : List String → Option Transfer
  | [ambr, tla, teid, pt, qos] => do
    pure { ambr := ← optTok parseAmbr ambr, tla := ← hexArg tla, teid := ← hexArg teid,
           pduType := ← optTok natArg pt, qos := ← optTok parseQos qos }
  | _ => none

def specTeidIp (t : Transfer) : String :=
  if t.tla.length = 4 ∧ t.teid.length = 4 then "ok " ++ toString (beNat t.teid) ++ " " ++ toHex t.tla else "undef"

def decnas : Handler
  | [b, slack] =>
    match hexArg b, hexArg slack with
    | some b, some sl => (resIp (decodeNasPdu (Sl.ofBytes b sl)), "nohang")
    | _, _ => badOp
  | _ => badOp

def decxfer : Handler
  | [b, slack] =>
    match hexArg b, hexArg slack with
    | some b, some sl => (resTeidIp (decodeTransferPdu (Sl.ofBytes b sl)), "nohang")
    | _, _ => badOp
  | _ => badOp

def encacc : Handler := fun args =>
  match parseAccept args with
  | some (msg, _) => ("ok " ++ toHex msg, "ok " ++ toHex msg)
  | none => badOp

def acc : Handler := fun args =>
  match parseAccept args.dropLast, args.getLast?.bind hexArg with
  | some (msg, addr), some sl => (resIp (decodeNasPdu (Sl.ofBytes msg sl)), specIp addr)
  | _, _ => badOp

def encxfer : Handler := fun args =>
  match parseTransfer args with
  | some t => ("ok " ++ toHex t.encode, "ok " ++ toHex t.encode)
  | none => badOp

def xfer : Handler := fun args =>
  match parseTransfer args.dropLast, args.getLast?.bind hexArg with
  | some t, some sl => (resTeidIp (decodeTransferPdu (Sl.ofBytes t.encode sl)), specTeidIp t)
  | _, _ => badOp

/-- `establish rpp nas itemNas transfer`: the selection of the setup item followed by the two extractions.
    The specification column is what a request with these item contents must yield whatever optional IEs
    precede the setup list. (The octet strings come out of the APER decoder with spare capacity holding zeros;
    the extraction results of the spec-shaped items used here do not depend on it — Props/C12 — so it is not modelled.) -/
def establish1 : Handler
  | [rpp, nas, itemNas, transfer] =>
    match hexArg itemNas, hexArg transfer with
    | some n, some t =>
      let ids := setupRequestIds (rpp != "x") (nas != "x")
      let ext : Res String := do
        let ip ← decodeNasPdu (Sl.ofBytes n [])
        let (teid, upf) ← decodeTransferPdu (Sl.ofBytes t [])
        pure ("ok " ++ toHex ip ++ " " ++ toString teid ++ " " ++ toHex upf)
      let model : Res String := do
        let _ ← selectSetupList ids
        ext
      let show_ : Res String → String
        | .ok s => s
        | .error e => e.tag
      (show_ model, match ext with | .ok s => s | .error _ => "undef")
    | _, _ => badOp
  | _ => badOp

/-- with two more arguments the list carries a second item (another session) after the first: `EstablishPDU` reads item [0] -/
def establish : Handler
  | [rpp, nas, itemNas, transfer, _, _] => establish1 [rpp, nas, itemNas, transfer]
  -- a fifth argument `u`: one more IE of an id the message's table does not have follows the list; the decoder skips it
  | [rpp, nas, itemNas, transfer, _] => establish1 [rpp, nas, itemNas, transfer]
  | a => establish1 a

end Extract

def extractHandlers : List (String × Handler) := [
  ("decnas", Extract.decnas),
  ("decxfer", Extract.decxfer),
  ("encacc", Extract.encacc),
  ("acc", Extract.acc),
  ("encxfer", Extract.encxfer),
  ("xfer", Extract.xfer),
  ("establish", Extract.establish)
]

end Driver
