import Driver.Util
import Stgutg.Model.NasAlg
import Stgutg.Spec.NasAlg
import Stgutg.Crypto.Prims
namespace Driver
open Stgutg

/-- `nasenc alg key count bearer dir payload`, `nasmac alg key count bearer dir msg` -/
def secAlg (mac : Bool) : Handler
  | [alg, key, count, bearer, dir, msg] =>
    match natArg alg, hexArg key, natArg count, natArg bearer, natArg dir, hexArg msg with
    | some alg, some key, some count, some bearer, some dir, some msg =>
      let P := Crypto.prims
      let c := UInt32.ofNat count
      -- the specification is defined for BEARER 0..31, DIRECTION 0|1, non-empty messages
      let inScope := bearer < 32 && dir < 2 && !msg.isEmpty && key.length == 16
      let sp (o : Option Bytes) : String := if inScope then optHex o else "undef"
      if mac then
        (resHex (Model.NasAlg.nasMac P (UInt8.ofNat alg) key c (UInt8.ofNat bearer) (UInt8.ofNat dir) msg),
         sp (Spec.NasAlg.nia P alg key c bearer dir msg))
      else
        (resHex (Model.NasAlg.nasEncrypt P (UInt8.ofNat alg) key c (UInt8.ofNat bearer) (UInt8.ofNat dir) msg),
         sp (Spec.NasAlg.nea P alg key c bearer dir msg))
    | _, _, _, _, _, _ => badOp
  | _ => badOp

def secAlgHandlers : List (String × Handler) := [
  ("nasenc", secAlg false),
  ("nasmac", secAlg true),
  -- the same calls made as the first use in a fresh process by several goroutines at once: a function of the arguments
  ("nasenc_cold", secAlg false),
  ("nasmac_cold", secAlg true)
]

end Driver
