import Driver.Util
import Driver.Suci
import Stgutg.Model.Convert
import Stgutg.Model.NetExt
import Stgutg.Spec.Ts24501Identity
import Stgutg.Spec.Convert3gpp
namespace Driver
open Stgutg Stgutg.Model.Convert
namespace Conv
open Driver.Suci

def convExt : Ext := Model.NetExt.goExt

/-- `plmn2nas <mcc> <mnc>` -/
def plmn2nasOp : Handler
  | [mcc, mnc] =>
    match hexArg mcc, hexArg mnc with
    | some mcc, some mnc =>
      let spec := match digitsOf mcc, digitsOf mnc with
        | some c, some n => optHex (Spec.Identity.plmn3 c n)
        | _, _ => "undef"
      (resHex (plmnIDToNas mcc mnc), spec)
    | _, _ => badOp
  | _ => badOp

/-- `snssai <sst> <sd>` -/
def snssaiOp : Handler
  | [sst, sd] =>
    match intArg sst, hexArg sd with
    | some sst, some sd =>
      let spec :=
        if 0 ≤ sst && sst ≤ 255 then
          if sd.isEmpty then "ok " ++ toHex (Spec.Convert.snssaiEncode { sst := sst.toNat, sd := none })
          else match convExt.hexDecode sd with
            | ([a, b, c], false) => "ok " ++ toHex (Spec.Convert.snssaiEncode { sst := sst.toNat, sd := some (a, b, c) })
            | _ => "undef"
        else "undef"
      ("ok " ++ toHex (snssaiToNas convExt sst sd), spec)
    | _, _ => badOp
  | _ => badOp

def amfTriple (r s p : Nat) : String := "ok " ++ toString r ++ " " ++ toString s ++ " " ++ toString p

/-- `amfid <text>` -/
def amfidOp : Handler
  | [t] =>
    match hexArg t with
    | some t =>
      let m := match amfIdToNas convExt t with
        | .ok (r, s, p) => amfTriple r.toNat s.toNat p.toNat
        | .error e => e.tag
      let spec := match convExt.hexDecode t with
        | ([a, b, c], false) =>
          let x := Spec.Convert.amfIdSplit (beNat [a, b, c])
          amfTriple x.region x.set x.pointer
        | _ => "undef"
      (m, spec)
    | none => badOp
  | _ => badOp

def hex6 (n : Nat) : Bytes :=
  [Model.NetExt.hexDigitLower (n / 1048576 % 16), Model.NetExt.hexDigitLower (n / 65536 % 16),
   Model.NetExt.hexDigitLower (n / 4096 % 16), Model.NetExt.hexDigitLower (n / 256 % 16),
   Model.NetExt.hexDigitLower (n / 16 % 16), Model.NetExt.hexDigitLower (n % 16)]

def amfTerm (r s p id : Nat) : UInt64 :=
  (UInt64.ofNat r * 31 + UInt64.ofNat s * 17 + UInt64.ofNat p * 7 + 1) * UInt64.ofNat (id % 65521 + 1)

/-- `amfid-range <lo> <hi>`: the model over every id of the range; the specification: every id splits into
    fields that recombine to it (0 bad ids), checksum of the TS 23.003 split -/
def amfidRangeOp : Handler
  | [lo, hi] =>
    match natArg lo, natArg hi with
    | some lo, some hi =>
      if lo > hi || hi > 16777216 || hi - lo > 65536 then badOp else
      let ids := List.range' lo (hi - lo)
      let (bad, sum, panics) := ids.foldl (fun (acc : Nat × UInt64 × Bool) id =>
        match amfIdToNas convExt (hex6 id) with
        | .ok (r, s, p) =>
          let ok := r.toNat * 65536 + s.toNat * 64 + p.toNat == id && s.toNat < 1024 && p.toNat < 64
          (if ok then acc.1 else acc.1 + 1, acc.2.1 + amfTerm r.toNat s.toNat p.toNat id, acc.2.2)
        | .error _ => (acc.1, acc.2.1, true)) (0, 0, false)
      let specSum := ids.foldl (fun (acc : UInt64) id =>
        let x := Spec.Convert.amfIdSplit id
        acc + amfTerm x.region x.set x.pointer id) 0
      (if panics then "panic" else "ok " ++ toString bad ++ " " ++ toString sum.toNat, "ok 0 " ++ toString specSum.toNat)
    | _, _ => badOp
  | _ => badOp

/-! PCO units on the line: `id.len.contentshex,…`, `-` for the empty list -/
def parseUnit (t : String) : Option PcoUnit :=
  match t.splitOn "." with
  | [id, l, c] =>
    match id.toNat?, l.toNat?, ofHex? c with
    | some id, some l, some c => if id < 65536 && l < 256 then some { id := UInt16.ofNat id, len := UInt8.ofNat l, contents := c } else none
    | _, _, _ => none
  | _ => none

def parseUnits (s : String) : Option (List PcoUnit) :=
  if s = "-" then some [] else (s.splitOn ",").mapM parseUnit

def fmtUnits (l : List PcoUnit) : String :=
  if l.isEmpty then "-" else
  String.intercalate "," (l.map fun u => toString u.id.toNat ++ "." ++ toString u.len.toNat ++ "." ++ toHex u.contents)

def resUnits : Res (List PcoUnit) → String
  | .ok l => "ok " ++ fmtUnits l
  | .error e => e.tag

def consistent (l : List PcoUnit) : Bool := l.all fun u => u.len.toNat == u.contents.length

def toContainers (l : List PcoUnit) : List Spec.Convert.Container :=
  l.map fun u => { id := u.id.toNat, contents := u.contents }

def pcoMarOp : Handler
  | [us] =>
    match parseUnits us with
    | some l =>
      ("ok " ++ toHex (pcoMarshal l),
       if consistent l then "ok " ++ toHex (Spec.Convert.pcoEncode (toContainers l)) else "undef")
    | none => badOp
  | _ => badOp

def pcoUnmOp : Handler
  | [d] =>
    match hexArg d with
    | some d => (resUnits (pcoUnmarshal d), "n/a")
    | none => badOp
  | _ => badOp

def pcoRtOp : Handler
  | [us] =>
    match parseUnits us with
    | some l => (resUnits (pcoUnmarshal (pcoMarshal l)), if consistent l then "ok " ++ fmtUnits l else "undef")
    | none => badOp
  | _ => badOp

/-! `pcoadd`: the convenience constructors of `ProtocolConfigurationOptions` (ProtocolConfigurationOptions.go `Add…`).
    Container identifiers from TS 24.008 table 10.5.154: 0003H DNS Server IPv6 Address (Request), 000AH IP address allocation
    via NAS signalling, 000DH DNS Server IPv4 Address (Request), 0010H IPv4 Link MTU. -/

/-- `net.IP.To4()`: 4 octets as they are, 16 octets with the IPv4-mapped prefix give the last four -/
def ipTo4 (b : Bytes) : Option Bytes :=
  if b.length == 4 then some b
  else if b.length == 16 && b.take 10 == List.replicate 10 0 && (b.drop 10).take 2 == [0xff, 0xff] then some (b.drop 12)
  else none

/-- `net.IP.To16()` is non-nil exactly for 4 and 16 octets -/
def ipIs16 (b : Bytes) : Bool := b.length == 4 || b.length == 16

/-- one constructor call: the unit appended, or `none` when the call returns an error (nothing appended) -/
def pcoAddStep (st : String) : Option (Option PcoUnit) :=
  if st = "r4" then some (some ⟨0x000d, 0, []⟩)
  else if st = "r6" then some (some ⟨0x0003, 0, []⟩)
  else if st = "ra" then some (some ⟨0x000a, 0, []⟩)
  else
    match st.splitOn "." with
    | ["d4", h] =>
      (hexArg h).map fun ip =>
        match ipTo4 ip with
        | some v4 => some ⟨0x000d, 4, v4⟩
        | none => none
    | ["d6", h] =>
      -- `dnsIP.To16() == nil` or `len(dnsIP) != 16`: only a 16-octet address is taken (an IPv4-mapped one included)
      (hexArg h).map fun ip => if ipIs16 ip && ip.length == 16 then some ⟨0x0003, 16, ip⟩ else none
    | ["mtu", n] =>
      match n.toNat? with
      | some v => if v < 65536 then some (some ⟨0x0010, 2, u16BE (UInt16.ofNat v)⟩) else none
      | none => none
    | _ => none

def pcoAddOp : Handler
  | [steps] =>
    match (steps.splitOn ",").mapM pcoAddStep with
    | none => badOp
    | some rs =>
      let rec go (k : Nat) (acc : List PcoUnit) : List (Option PcoUnit) → String
        | [] => "ok " ++ fmtUnits acc ++ " " ++ toHex (pcoMarshal acc)
        | some u :: rest => go (k + 1) (acc ++ [u]) rest
        | none :: _ => s!"err {k} " ++ fmtUnits acc
      let r := go 0 [] rs
      (r, r)
  | _ => badOp

/-! transport layer address. The specification's domain: the IPv4 slot holds the text of an IPv4 address or is
    empty, the IPv6 slot the text of an IPv6 address (not an IPv4-mapped one) or is empty, not both empty. -/
def slot4 (s : Bytes) : Option (Option Bytes) :=
  if s.isEmpty then some none else
  match to4 (convExt.parseIP s) with
  | some a => some (some a)
  | none => none

def slot6 (s : Bytes) : Option (Option Bytes) :=
  if s.isEmpty then some none else
  match convExt.parseIP s with
  | some b => if (to4 (some b)).isSome then none else some (some b)
  | none => none

def ip2ngapOp : Handler
  | [a, b] =>
    match hexArg a, hexArg b with
    | some a, some b =>
      let m := match ipAddressToNgap convExt a b with
        | .ok t => "ok " ++ toString t.bitLength ++ " " ++ toHex t.bytes
        | .error e => e.tag
      let spec := match slot4 a, slot6 b with
        | some x, some y =>
          match Spec.Convert.tlaEncode x y with
          | some t => "ok " ++ toString t.bitLength ++ " " ++ toHex t.bytes
          | none => "undef"
        | _, _ => "undef"
      (m, spec)
    | _, _ => badOp
  | _ => badOp

def resPair : Res (Bytes × Bytes) → String
  | .ok (x, y) => "ok " ++ toHex x ++ " " ++ toHex y
  | .error e => e.tag

def ngap2ipOp : Handler
  | [bl, bs] =>
    match natArg bl, hexArg bs with
    | some bl, some bs =>
      let spec := match Spec.Convert.tlaDecode { bytes := bs, bitLength := bl } with
        | some (x, y) =>
          let mapped := match y with | some b => (to4 (some b)).isSome | none => false
          if mapped then "undef" else
          let s4 := match x with | some a => convExt.ipString a | none => []
          let s6 := match y with | some b => convExt.ipString b | none => []
          "ok " ++ toHex s4 ++ " " ++ toHex s6
        | none => "undef"
      (resPair (ipAddressToString convExt { bytes := bs, bitLength := bl }), spec)
    | _, _ => badOp
  | _ => badOp

def canonical (s : Bytes) (v : Option Bytes) : Bool :=
  match v with
  | some x => convExt.ipString x == s
  | none => s.isEmpty

def iprtOp : Handler
  | [a, b] =>
    match hexArg a, hexArg b with
    | some a, some b =>
      let m := match ipAddressToNgap convExt a b with
        | .ok t => resPair (ipAddressToString convExt t)
        | .error e => e.tag
      let spec := match slot4 a, slot6 b with
        | some x, some y =>
          if (x.isSome || y.isSome) && canonical a x && canonical b y then "ok " ++ toHex a ++ " " ++ toHex b else "undef"
        | _, _ => "undef"
      (m, spec)
    | _, _ => badOp
  | _ => badOp

def dnnMarOp : Handler
  | [d] => match hexArg d with
    | some d => ("ok " ++ toHex (dnnMarshal d), if d.length < 256 then "ok " ++ toHex (Spec.Convert.dnnEncode d) else "undef")
    | none => badOp
  | _ => badOp

def dnnUnmOp : Handler
  | [d] => match hexArg d with
    | some d => (resHex (dnnUnmarshal d), match Spec.Convert.dnnDecode d with | some v => "ok " ++ toHex v | none => "undef")
    | none => badOp
  | _ => badOp

def dnnRtOp : Handler
  | [d] => match hexArg d with
    | some d => (resHex (dnnUnmarshal (dnnMarshal d)), "ok " ++ toHex d)
    | none => badOp
  | _ => badOp

def xHexDecOp : Handler
  | [t] => match hexArg t with
    | some t => let (b, e) := convExt.hexDecode t; ("ok " ++ toHex b ++ (if e then " 1" else " 0"), "n/a")
    | none => badOp
  | _ => badOp

def xParseIpOp : Handler
  | [t] => match hexArg t with
    | some t => ("ok " ++ (match convExt.parseIP t with | some b => toHex b | none => "-"), "n/a")
    | none => badOp
  | _ => badOp

def xIpStrOp : Handler
  | [t] => match hexArg t with
    | some t => ("ok " ++ toHex (convExt.ipString t), "n/a")
    | none => badOp
  | _ => badOp

end Conv
open Conv in
def convHandlers : List (String × Handler) := [
  ("plmn2nas", plmn2nasOp),
  ("snssai", snssaiOp),
  ("amfid", amfidOp),
  ("amfid-range", amfidRangeOp),
  ("pcomar", pcoMarOp),
  ("pcounm", pcoUnmOp),
  ("pcort", pcoRtOp),
  ("pcoadd", pcoAddOp),
  ("ip2ngap", ip2ngapOp),
  ("ngap2ip", ngap2ipOp),
  ("iprt", iprtOp),
  ("dnnmar", dnnMarOp),
  ("dnnunm", dnnUnmOp),
  ("dnnrt", dnnRtOp),
  ("x-hexdec", xHexDecOp),
  ("x-parseip", xParseIpOp),
  ("x-ipstr", xIpStrOp)
]

end Driver
