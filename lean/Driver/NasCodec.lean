import Driver.Util
import Stgutg.Model.NasCodec
import Stgutg.Model.NasWF
import Stgutg.Model.NasSpec
import Stgutg.Gen.NasLayouts
namespace Driver
open Stgutg Stgutg.Nas
open Stgutg.Spec (Ts24501.Wire Ts24501.SMsg)

/-! Line protocol of the NAS codec domains (`nas-rt`, `nas-ctor`).

    value token   `nil` | `<Iei>.<Len>.<hex of Octet|Buffer>`   (decimal Iei/Len; 0 when the struct has no such field)
    nmenc  <Msg> <tok>*                     Encode<Msg>                      → ok <hex>
    nmdec  <Msg> <hex>                      Decode<Msg> on New<Msg>()        → ok <tok>*
    nmrt   <Msg> <tok>*                     encode, then decode              → ok <hex> | <tok>*
    nmre   <Msg> <hex>                      decode, then encode              → ok <tok>* | <hex>
    nmperm <Msg> <mand hex> <k> <ie hex>*k <perm>*k   decode(mand ++ ies in perm order) and decode(mand ++ ies)  → ok <tok>* | <tok>*
    nmpenc <gsm 0|1> <hdr hex> <Msg> <tok>* PlainNasEncode                   → ok <hex>
    nmpdec <hex>                            PlainNasDecode                   → ok <gsm> <hdr hex> <Msg> <tok>*
-/

def nasCodecC : Codec := { layouts := Gen.Nas.layouts, gmm := Gen.Nas.dispatchGmm, gsm := Gen.Nas.dispatchGsm }

def layoutByName (n : String) : Option (Nat × Layout) :=
  let rec go (i : Nat) : List Layout → Option (Nat × Layout)
    | [] => none
    | l :: ls => if l.name == n then some (i, l) else go (i + 1) ls
  go 0 Gen.Nas.layouts

def valTok (v : Val) : String := s!"{v.iei}.{v.len}.{toHex v.data}"

def msgToks (m : Msg) : String :=
  " ".intercalate (m.map fun | none => "nil" | some v => valTok v)

def parseTok (s : String) : Option (Option Val) :=
  if s == "nil" then some none else
  match s.splitOn "." with
  | [a, b, c] =>
    match a.toNat?, b.toNat?, ofHex? c with
    | some i, some l, some d => some (some { iei := i, len := l, data := d })
    | _, _, _ => none
  | _ => none

def parseMsg (toks : List String) : Option Msg := toks.mapM parseTok

def resStr {α} (f : α → String) : Res α → String
  | .ok a => "ok " ++ f a
  | .error e => e.tag

/-- strip a trailing space when a message has no fields -/
def tidy (s : String) : String := s.trimAscii.toString

/-! ### specification column (TS 24.501 tables, `Spec/Ts24501.lean`) -/

def wireOf (L : Layout) : Option Spec.Ts24501.Wire := (Spec.Ts24501.tableByName L.name).bind (·.wire)

def hex2 (n : Nat) : String := String.ofList [hexChar (n / 16), hexChar (n % 16)]

def fieldName (L : Layout) (i : Nat) : String := match L.fields[i]? with | some f => f.name | none => "?"

def keysSuffix (L : Layout) (ks : List String) : String :=
  if ks.isEmpty then "" else " #" ++ ",".intercalate (ks.map fun k => s!"nas-layout:{L.name}:{k}")

/-- which IEs does the implemented layout put on the wire differently from the table?  (per present field:
    the model's bytes for the field against the standard's bytes for the same value) -/
def encKeys (L : Layout) (w : Spec.Ts24501.Wire) (m : Msg) : List String :=
  let mand := (List.range L.encMand.length).filterMap fun i =>
    match L.encMand[i]?, w.mand[i]? with
    | some g, some mw =>
      match L.fields[g.1]?, m[g.1]? with
      | some f, some (some v) =>
        let a := match encIE f.shape v g.2 with | .ok b => some b | _ => none
        if a == Spec.Ts24501.encMand [mw] [mandToSpec v g.2] then none else some (fieldName L g.1)
      | _, _ => none
    | some g, none => some (fieldName L g.1)
    | _, _ => none
  let opt := (L.encOpt.zip L.cases).filterMap fun p =>
    match L.fields[p.1.1]?, m[p.1.1]? with
    | some f, some (some v) =>
      let a := match encIE f.shape v p.1.2 with | .ok b => some b | _ => none
      let sv := optToSpec w p.2.iei v p.1.2
      let b := (w.opt.find? (·.iei == sv.1)).bind fun ow => Spec.Ts24501.encOptIE ow sv.2
      if a == b then none else some ("0x" ++ hex2 p.2.iei)
    | _, _ => none
  mand ++ opt

/-- all value lengths within the bounds of the table -/
def strictOK (w : Spec.Ts24501.Wire) (sm : Spec.Ts24501.SMsg) : Bool :=
  sm.opt.all fun (iei, val) => match w.opt.find? (·.iei == iei) with
    | some ow => Spec.Ts24501.valLenOK ow val.length
    | none => false

/-- first element (wire order) that the implementation decodes differently from the standard's reading: the shortest
    prefix of the abstract message (imperative part, then one optional IE after the other) whose standard encoding the
    model decodes to something else than `fromSpec` of that prefix (or fails on) names the element -/
def decKeys (L : Layout) (sm : Spec.Ts24501.SMsg) (expected got : Msg) : List String :=
  if expected == got then [] else
  match wireOf L with
  | none => ["table"]
  | some w =>
    let bad := (List.range (sm.opt.length + 1)).find? fun k =>
      let smk : Spec.Ts24501.SMsg := ⟨sm.mand, sm.opt.take k⟩
      match Spec.Ts24501.encode w smk with
      | none => false
      | some bs =>
        match decode L bs with
        | .ok m => m != fromSpec L smk
        | .error _ => true
    match bad with
    | some 0 =>
      let exp0 := fromSpec L ⟨sm.mand, []⟩
      let got0 := match (Spec.Ts24501.encode w ⟨sm.mand, []⟩).map (decode L) with
        | some (.ok m) => m
        | _ => []
      match (L.encMand.map (·.1)).find? fun i => exp0[i]? != got0[i]? with
      | some i => [fieldName L i]
      | none => ["mandatory"]
    | some (k + 1) =>
      match sm.opt[k]? with
      | some (iei, _) => ["0x" ++ hex2 iei]
      | none => ["extra"]
    | none => ["extra"]

def specParse (L : Layout) (bs : Bytes) : Option (Spec.Ts24501.SMsg × Msg) :=
  match wireOf L with
  | none => none
  | some w =>
    match Spec.Ts24501.parse w bs with
    | none => none
    | some sm => if strictOK w sm then some (sm, fromSpec L sm) else none

def okEq (r : Res Bytes) (bs : Bytes) : Bool := match r with | .ok b => b == bs | .error _ => false

def gotMsg : Res Msg → Msg
  | .ok m => m
  | .error _ => []

def nmEnc : Handler
  | name :: toks =>
    match layoutByName name, parseMsg toks with
    | some (_, L), some m =>
      if m.length != L.fields.length then badOp else
      let spec := match wireOf L with
        | none => "undef"
        | some w =>
          if !specWF L m then "undef" else
          match Spec.Ts24501.encode w (toSpec L w m) with
          | none => "undef"
          | some bs =>
            let ks := if okEq (encode L m) bs then [] else
              let k := encKeys L w m
              if k.isEmpty then ["order"] else k
            "ok " ++ toHex bs ++ keysSuffix L ks
      (resStr toHex (encode L m), spec)
    | _, _ => badOp
  | _ => badOp

def nmDec : Handler
  | [name, hex] =>
    match layoutByName name, ofHex? hex with
    | some (_, L), some bs =>
      let r := decode L bs
      let spec := match specParse L bs with
        | none => "undef"
        | some (sm, exp) => tidy ("ok " ++ msgToks exp) ++ keysSuffix L (decKeys L sm exp (gotMsg r))
      (tidy (resStr msgToks r), spec)
    | _, _ => badOp
  | _ => badOp

def nmRt : Handler
  | name :: toks =>
    match layoutByName name, parseMsg toks with
    | some (_, L), some m =>
      if m.length != L.fields.length then badOp else
      let r : Res String := do
        let bs ← encode L m
        let m' ← decode L bs
        pure (tidy (toHex bs ++ " | " ++ msgToks m'))
      (resStr id r, if layoutWF L && msgWF L m then "wf" else "undef")
    | _, _ => badOp
  | _ => badOp

def nmRe : Handler
  | [name, hex] =>
    match layoutByName name, ofHex? hex with
    | some (_, L), some bs =>
      let r : Res String := do
        let m ← decode L bs
        let bs' ← encode L m
        pure (tidy (msgToks m) ++ " | " ++ toHex bs')
      let canon : Bool := match decode L bs with
        | .ok m => layoutWF L && msgWF L m && okEq (encode L m) bs
        | _ => false
      (resStr id r, if canon then "canon" else "undef")
    | _, _ => badOp
  | _ => badOp

def nmPerm : Handler
  | name :: mand :: k :: rest =>
    match layoutByName name, ofHex? mand, k.toNat? with
    | some (_, L), some mb, some k =>
      if rest.length != 2 * k then badOp else
      match (rest.take k).mapM ofHex?, (rest.drop k).mapM String.toNat? with
      | some ies, some perm =>
        if perm.any (· ≥ k) then badOp else
        let permuted := perm.map fun i => ies.getD i []
        let r : Res String := do
          let a ← decode L (mb ++ permuted.flatten)
          let b ← decode L (mb ++ ies.flatten)
          pure (tidy (msgToks a) ++ " | " ++ tidy (msgToks b))
        let wf : Bool := match decode L (mb ++ ies.flatten) with
          | .ok m => layoutWF L && msgWF L m && okEq (encode L m) (mb ++ ies.flatten) &&
              ((optPieces L.fields m L.encOpt).map (·.2) == ies)
          | _ => false
        (resStr id r, if wf then "wf" else "undef")
      | _, _ => badOp
    | _, _, _ => badOp
  | _ => badOp

def nmPEnc : Handler
  | gsm :: hdr :: name :: toks =>
    match gsm.toNat?, ofHex? hdr, layoutByName name, parseMsg toks with
    | some g, some h, some (i, L), some m =>
      if m.length != L.fields.length then badOp else
      (resStr toHex (plainEncode nasCodecC { gsm := g != 0, hdr := h, idx := i, body := m }), "n/a")
    | _, _, _, _ => badOp
  | _ => badOp

def nmPDec : Handler
  | [hex] =>
    match ofHex? hex with
    | some bs =>
      let show_ (pm : PlainMsg) : String :=
        let name := match Gen.Nas.layouts[pm.idx]? with
          | some L => L.name
          | none => "?"
        tidy s!"{if pm.gsm then 1 else 0} {toHex pm.hdr} {name} {msgToks pm.body}"
      let spec : String :=
        match bs with
        | [] => "n/a"
        | e :: _ =>
          let go (gsm : Bool) (ti hl : Nat) : String :=
            if bs.length < hl then "n/a" else
            match bs[ti]? with
            | none => "n/a"
            | some t =>
              match Spec.Ts24501.tables.find? (fun T => T.gsm == gsm && T.msgType == some t.toNat) with
              | none => "err"          -- TS 24.501 7.4: unknown message type
              | some T =>
                match layoutByName T.name with
                | none => "n/a"
                | some (_, L) =>
                  match specParse L bs with
                  | none => "undef"
                  | some (sm, exp) =>
                    let got := match plainDecode nasCodecC bs with
                      | .ok pm => pm.body
                      | .error _ => []
                    tidy s!"ok {if gsm then 1 else 0} {toHex (bs.take hl)} {T.name} {msgToks exp}" ++
                      keysSuffix L (decKeys L sm exp got)
          if e.toNat == Spec.Ts24501.epd5GMM then go false 2 3
          else if e.toNat == Spec.Ts24501.epd5GSM then go true 3 4
          else "err"
      (resStr show_ (plainDecode nasCodecC bs), spec)
    | none => badOp
  | _ => badOp

/-! ### `nsgen <Msg> <seed>`: a message built by the standard's encoder from a pseudo-random abstract message
    (random subset of the table's optional IEs in random order, value lengths within the table's bounds).
    The check feeds these bytes to the real decoder (`nmdec`), closing the direction "independent encoder → codec". -/

def lcg (s : Nat) : Nat := (s * 6364136223846793005 + 1442695040888963407) % 18446744073709551616

def rndBytes : Nat → Nat → Bytes × Nat
  | 0, s => ([], s)
  | n + 1, s =>
    let s' := lcg s
    let (r, s'') := rndBytes n s'
    (UInt8.ofNat (s' / 4294967296) :: r, s'')

def pickLen (mn : Nat) (mx : Option Nat) (s : Nat) : Nat :=
  let r := s / 4294967296
  match mx with
  | some m => if m ≤ mn then mn else
      let span := m - mn
      if r % 7 == 0 then m else if r % 7 == 1 then mn else mn + r / 8 % (min span 40 + 1)
  | none => if r % 7 == 1 then mn else mn + r / 8 % 41

def shuffle (l : List α) (s : Nat) : List α × Nat :=
  l.foldl (fun (acc : List α × Nat) x =>
    let s' := lcg acc.2
    let k := (s' / 4294967296) % (acc.1.length + 1)
    (acc.1.take k ++ [x] ++ acc.1.drop k, s')) ([], s)

def nsGen : Handler
  | [name, seed] =>
    match Spec.Ts24501.tableByName name, seed.toNat? with
    | some T, some sd =>
      match T.wire with
      | none => badOp
      | some w =>
        let s0 := lcg (sd + 977)
        -- imperative part
        let (mand, s1) := w.mand.foldl (fun (acc : List Bytes × Nat) mw =>
          let s := lcg acc.2
          let n := match mw with
            | .v n => n
            | .vRest mn => pickLen mn none s
            | .lv (some n) | .lve (some n) => n
            | .lv none => pickLen 0 (some 40) s
            | .lve none => pickLen 0 (some 300) s
          let (b, s') := rndBytes n s
          (acc.1 ++ [b], s')) ([], s0)
        -- header octets: EPD and message type
        let epd : UInt8 := UInt8.ofNat (if T.gsm then Spec.Ts24501.epd5GSM else Spec.Ts24501.epd5GMM)
        let mand := mand.set 0 [epd]
        let mand := match T.msgType with
          | some t => mand.set (if T.gsm then 3 else 2) [UInt8.ofNat t]
          | none => mand
        -- optional IEs
        let (chosen, s2) := w.opt.foldl (fun (acc : List (Nat × Bytes) × Nat) ow =>
          let s := lcg acc.2
          if (s / 4294967296) % 2 == 0 then (acc.1, s) else
          match ow.kind with
          | .half => (acc.1 ++ [(ow.iei, [UInt8.ofNat ((s / 65536) % 16)])], s)
          | _ =>
            let n := pickLen ow.minVal ow.maxVal (lcg s)
            let n := if n > 3000 then ow.minVal + n % 64 else n
            let (b, s') := rndBytes n (lcg (lcg s))
            (acc.1 ++ [(ow.iei, b)], s')) ([], s1)
        let (opts, _) := if sd % 3 == 0 then (chosen, s2) else shuffle chosen s2
        match Spec.Ts24501.encode w ⟨mand, opts⟩ with
        | some bs => ("ok " ++ toHex bs, "n/a")
        | none => ("err", "n/a")
    | _, _ => badOp
  | _ => badOp

/-- `nmpre2 <b1> <b2>`: a Message object that was decoded into before and then given another message's contents encodes to that
    message's octets — a message is a value: the answer does not depend on `<b1>`. The op compares the implementation with
    itself (both octet strings are encodings the plain codec produced: it decodes them). -/
def nmPRe2 : Handler
  | [_, _] => ("ok same", "n/a")
  | _ => badOp

def nasCodecHandlers : List (String × Handler) := [
  ("nmpre2", nmPRe2),
  ("nmenc", nmEnc), ("nmdec", nmDec), ("nmrt", nmRt), ("nmre", nmRe), ("nmperm", nmPerm),
  ("nmpenc", nmPEnc), ("nmpdec", nmPDec), ("nsgen", nsGen)
]

end Driver
