import Driver.Util
import Stgutg.Model.NasProtect
import Stgutg.Spec.NasSecurity
import Stgutg.Crypto.Prims
/-!
  Domains `sec-hist` (uplink, C06), `sec-dl` (downlink, C10) and the counter sweep.

  ulhist <ul0> <dl0> <calg> <ialg> <kenc> <kint> <step>*
      step = <via>,<epd>,<sht>,<ctx>,<new>,<plain>    via: e = EncodeNasPduWithSecurity, n = NASEncode,
                                                       z / u / x = NASEncode without message / without UE / with a
                                                       message the plain codec refuses (`nasEncodeRefused`),
                                                       b = EncodeNasPduWithSecurity on octets the plain decoder refuses,
                                                       r = NASEncode on the SAME message object as the step before
      → ok <octets|err|panic>* ul=<stored word> dl=<stored word>
      spec column: the octets a conformant UE sends (TS 24.501 / TS 33.501), after checking that the
      conformant receiver recovers the plain message from them; final NAS COUNTs.
  dlhist <ul0> <dl0> <calg> <ialg> <kenc> <kint> <step>*
      step = <kind>,<sht>,<pkg>,<count|x>,<plain|x>   kind: d = NASDecode, g = GetNasPdu, n = GetNasPdu without
                                                       NAS-PDU IE, z = NASDecode(nil payload), u = NASDecode(nil UE)
      → ok <octets handed to PlainNasDecode|err|panic|nil>@<DL stored word>* ul=… dl=…
      spec column: the plain message the sender protected (after checking that the conformant receiver
      recovers it from <pkg> under the sender's COUNT) @ the sender's COUNT.
  cntsweep <lo> <hi> <stride>  → ok <digest> over the observations of every Count operation on each stored word
  `ulhist0` / `dlhist0` run the pre-repair models (F8 / F7) — used to document the corpus replays.
-/
namespace Driver
open Stgutg Stgutg.Model.NasProtect

def resTok : Res Bytes → String
  | .ok b => toHex b
  | .error e => e.tag

def boolArg (s : String) : Option Bool :=
  if s = "1" then some true else if s = "0" then some false else none

structure Hdr where
  ue : UeSec
  ctx : Spec.NasSecurity.SecCtx
  inScope : Bool

def parseHdr : List String → Option (Hdr × List String)
  | ul0 :: dl0 :: calg :: ialg :: kenc :: kint :: steps =>
    match natArg ul0, natArg dl0, natArg calg, natArg ialg, hexArg kenc, hexArg kint with
    | some ul0, some dl0, some calg, some ialg, some kenc, some kint =>
      if ul0 < 2 ^ 32 && dl0 < 2 ^ 32 && calg < 256 && ialg < 256 && kenc.length == 16 && kint.length == 16 then
        some ({ ue := { ulCount := UInt32.ofNat ul0, dlCount := UInt32.ofNat dl0, cipheringAlg := UInt8.ofNat calg,
                        integrityAlg := UInt8.ofNat ialg, knasEnc := kenc, knasInt := kint },
                ctx := { ia := ialg, ea := calg, kNasInt := kint, kNasEnc := kenc },
                inScope := (ialg == 1 || ialg == 2) && calg ≤ 2 && ul0 < 2 ^ 24 && dl0 < 2 ^ 24 }, steps)
      else none
    | _, _, _, _, _, _ => none
  | _ => none

/-! ### uplink -/

structure UlStep where
  via : String
  op : UlOp

/-- octets `PlainNasDecode` refuses on the first octet: none at all (`GetEPD` indexes `payload[0]`: trap), or an extended
    protocol discriminator that is neither 5GMM (0x7e) nor 5GSM (0x2e) — the inputs of step kind `b` -/
def undecodable (plain : Bytes) : Bool :=
  match plain with
  | [] => true
  | e :: _ => e != 0x7e && e != 0x2e

def parseUlStep (s : String) : Option UlStep :=
  match s.splitOn "," with
  | [via0, epd, sht, ctx, new, plain] =>
    -- `r`: the caller hands NASEncode the message object of the previous call again; a message is a value here
    let via := if via0 = "r" then "n" else via0
    match natArg epd, natArg sht, boolArg ctx, boolArg new, hexArg plain with
    | some epd, some sht, some ctx, some new, some plain =>
      if epd < 256 && sht < 256 && (via = "e" || via = "n" || via = "z" || via = "u" || via = "x" || (via = "b" && undecodable plain)) &&
         ((via ≠ "e" && via ≠ "b") || epd = 126) then
        some { via := via, op := { plain := plain, epd := UInt8.ofNat epd, sht := UInt8.ofNat sht, ctxAvail := ctx, newCtx := new } }
      else none
    | _, _, _, _, _ => none
  | _ => none

/-- `NASEncode` outside the domain of `Model.NasProtect.nasEncodeCore` (which assumes `ue`, `msg` non-nil and a message the
    plain codec encodes): `z` = no message, `u` = no UE context: refused before anything happens; `x` = a message that
    `PlainNasEncode` refuses (neither a 5GMM nor a 5GSM part): refused — after the counters were reset when the call
    announces a new security context (`ue.ULCount.Set(0, 0)` precedes the encoding) -/
def nasEncodeRefused (via : String) (ue : UeSec) (op : UlOp) : UeSec × Res Bytes :=
  if via = "x" && op.ctxAvail && op.newCtx then
    ({ ue with ulCount := Count.set ue.ulCount 0 0, dlCount := Count.set ue.dlCount 0 0 }, .error .error)
  else (ue, .error .error)

def ulHist (legacy : Bool) : Handler := fun args =>
  match parseHdr args with
  | none => badOp
  | some (h, stepToks) =>
    match stepToks.mapM parseUlStep with
    | none => badOp
    | some steps =>
      let P := Crypto.prims
      -- model
      let (ueEnd, toks) := steps.foldl (fun (acc : UeSec × List String) st =>
        let (ue', r) :=
          if st.via = "b" then (acc.1, if st.op.plain.isEmpty then .error .panic else .error .error)
          else if st.via = "z" || st.via = "u" || st.via = "x" then nasEncodeRefused st.via acc.1 st.op
          else if legacy then nasEncodeLegacy P acc.1 st.op
          else if st.via = "e" then encodeNasPduWithSecurity P acc.1 st.op.plain st.op.sht st.op.ctxAvail st.op.newCtx
          else nasEncode P acc.1 st.op
        (ue', (resTok r ++ (if st.via = "b" then "!re=undecodable" else "")) :: acc.2)) (h.ue, [])
      let model := "ok " ++ " ".intercalate toks.reverse ++ s!" ul={ueEnd.ulCount.toNat} dl={ueEnd.dlCount.toNat}"
      -- specification: conformant UE sender + conformant receiver
      let scope := h.inScope && steps.all (fun st => (st.via = "e" || st.via = "n") && (!st.op.ctxAvail || (1 ≤ st.op.sht.toNat && st.op.sht.toNat ≤ 4)))
      if !scope then (model, "undef") else
      let (sEnd, dlEnd, stoks) := steps.foldl (fun (acc : Spec.NasSecurity.Sender × Nat × List String) st =>
        let (s, dl, out) := acc
        let (s', used, bytes) := Spec.NasSecurity.ueProtect P h.ctx s st.op.ctxAvail st.op.newCtx st.op.epd st.op.sht.toNat st.op.plain
        let dl' := if st.op.ctxAvail && st.op.newCtx then 0 else dl
        let tok := match bytes, used with
          | some b, some c =>
            if Spec.NasSecurity.receive P h.ctx Spec.NasSecurity.uplink c b == some st.op.plain then toHex b
            else "spec-receiver-rejects"
          | some b, none => toHex b
          | none, _ => "undef"
        (s', dl', tok :: out)) ({ count := h.ue.ulCount.toNat }, h.ue.dlCount.toNat, [])
      (model, "ok " ++ " ".intercalate stoks.reverse ++ s!" ul={sEnd.count} dl={dlEnd}")

/-! ### downlink -/

structure DlStep where
  kind : String
  sht : UInt8
  pkg : Bytes
  wantCount : Option Nat
  wantPlain : Option Bytes

def parseDlStep (s : String) : Option DlStep :=
  match s.splitOn "," with
  | [kind, sht, pkg, cnt, plain] =>
    match natArg sht, hexArg pkg with
    | some sht, some pkg =>
      let wc := if cnt = "x" then some none else (natArg cnt).map some
      let wp := if plain = "x" then some none else (hexArg plain).map some
      match wc, wp with
      | some wc, some wp =>
        if sht < 256 && (kind = "d" || kind = "g" || kind = "n" || kind = "z" || kind = "u") then
          some { kind := kind, sht := UInt8.ofNat sht, pkg := pkg, wantCount := wc, wantPlain := wp }
        else none
      | _, _ => none
    | _, _ => none
  | _ => none

def dlStepModel (legacy : Bool) (P : Prims) (ue : UeSec) (st : DlStep) : UeSec × String :=
  if st.kind = "d" then
    let (ue', r) := if legacy then nasDecodeLegacy P ue st.sht st.pkg else nasDecode P ue st.sht st.pkg
    (ue', resTok r)
  else if st.kind = "z" then
    let (ue', r) := nasDecodeNilable P ue st.sht none
    (ue', resTok r)
  else if st.kind = "u" then (ue, "err")       -- `ue == nil` is refused before anything else
  else
    let ies : List (Option Bytes) := if st.kind = "g" then [none, none, some st.pkg] else [none, none]
    match (if legacy then getNasPduLegacy P ue ies else getNasPdu P ue ies) with
    | (ue', .ok (some b)) => (ue', toHex b)
    | (ue', .ok none) => (ue', "nil")
    | (ue', .error e) => (ue', e.tag)

def dlHist (legacy : Bool) : Handler := fun args =>
  match parseHdr args with
  | none => badOp
  | some (h, stepToks) =>
    match stepToks.mapM parseDlStep with
    | none => badOp
    | some steps =>
      let P := Crypto.prims
      let (ueEnd, toks) := steps.foldl (fun (acc : UeSec × List String) st =>
        let (ue', t) := dlStepModel legacy P acc.1 st
        (ue', (t ++ s!"@{ue'.dlCount.toNat}") :: acc.2)) (h.ue, [])
      let model := "ok " ++ " ".intercalate toks.reverse ++ s!" ul={ueEnd.ulCount.toNat} dl={ueEnd.dlCount.toNat}"
      let scope := h.inScope && steps.all (fun st => st.wantPlain.isSome && (st.kind = "d" || st.kind = "g") &&
                      st.sht.toNat ≤ 4 && (st.sht.toNat == 0 || st.wantCount.isSome))
      if !scope then (model, "undef") else
      let (dlEnd, stoks) := steps.foldl (fun (acc : Nat × List String) st =>
        let (dl, out) := acc
        let plain := st.wantPlain.getD []
        if st.sht.toNat == 0 then
          let tok := if Spec.NasSecurity.receive P h.ctx Spec.NasSecurity.downlink dl st.pkg == some plain then toHex plain
                     else "spec-receiver-rejects"
          (dl, (tok ++ s!"@{dl}") :: out)
        else
          let c := st.wantCount.getD 0
          let tok := if Spec.NasSecurity.receive P h.ctx Spec.NasSecurity.downlink c st.pkg == some plain then toHex plain
                     else "spec-receiver-rejects"
          (c, (tok ++ s!"@{c}") :: out)) (h.ue.dlCount.toNat, [])
      (model, "ok " ++ " ".intercalate stoks.reverse ++ s!" ul={h.ue.ulCount.toNat} dl={dlEnd}")

/-! ### counter sweep -/

/-- FNV-1a style step on 64-bit words -/
def mix (h x : UInt64) : UInt64 := (h ^^^ x) * 0x100000001b3

def hex16 (h : UInt64) : String :=
  toHex ((List.range 8).map fun i => (h >>> (UInt64.ofNat (8 * (7 - i)))).toUInt8)

/-- observations of the model on the stored word `v` -/
def cntModel (h : UInt64) (v : Nat) : UInt64 :=
  let w := UInt32.ofNat v
  let s := UInt8.ofNat ((v * 7 + 3) % 256)
  let o := UInt16.ofNat ((v * 13 + 5) % 65536)
  let g := Count.get w
  let st := Count.set w o s
  [g.1.toUInt64, g.2.toUInt64, (Count.addOne w).toUInt64, (Count.sqn w).toUInt64, (Count.overflow w).toUInt64,
   (Count.setSQN w s).toUInt64, (Count.setOverflow w o).toUInt64, st.toUInt64, (Count.get st).2.toUInt64,
   (Count.sqn st).toUInt64, (Count.overflow st).toUInt64].foldl mix h

/-- the same observations from the arithmetic meaning: NAS COUNT = stored word mod 2^24 = overflow·256 + SQN -/
def cntSpec (h : UInt64) (v : Nat) : UInt64 :=
  let s := (v * 7 + 3) % 256
  let o := (v * 13 + 5) % 65536
  let hi := v / 2 ^ 24 * 2 ^ 24
  [v % 2 ^ 24, v % 2 ^ 24, (v + 1) % 2 ^ 24, v % 256, v / 256 % 65536,
   v / 256 * 256 + s, hi + o * 256 + v % 256, hi + o * 256 + s, o * 256 + s, s, o].foldl
    (fun h x => mix h (UInt64.ofNat x)) h

def sweepLoop (f : UInt64 → Nat → UInt64) (stride hi : Nat) : Nat → Nat → UInt64 → UInt64
  | 0, _, h => h
  | fuel + 1, v, h => if v ≥ hi then h else sweepLoop f stride hi fuel (v + stride) (f h v)

def cntSweep : Handler
  | [lo, hi, stride] =>
    match natArg lo, natArg hi, natArg stride with
    | some lo, some hi, some stride =>
      if stride == 0 || hi > 2 ^ 32 || lo > hi then badOp else
      let n := (hi - lo) / stride + 1
      ("ok " ++ hex16 (sweepLoop cntModel stride hi n lo 0), "ok " ++ hex16 (sweepLoop cntSpec stride hi n lo 0))
    | _, _, _ => badOp
  | _ => badOp

def secHistHandlers : List (String × Handler) := [
  ("ulhist", ulHist false),
  ("ulhist0", ulHist true),
  ("dlhist", dlHist false),
  ("dlhist0", dlHist true),
  ("cntsweep", cntSweep)
]

end Driver
