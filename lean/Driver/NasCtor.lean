import Driver.Util
import Driver.NasCodec
import Stgutg.Model.NasCtor
import Stgutg.Spec.NasCtorIntended
namespace Driver
open Stgutg Stgutg.Nas
open Stgutg.Spec.Ts24501 (SMsg Table tableByName)

/-! `nctor <Constructor> <args…>`  (domain nas-ctor): the constructors of NasPdu.go on the emulator's path.
    model column = bytes of the hand model (Model/NasCtor.lean); spec column = bytes the standard's encoder produces
    for the intended abstract message (Spec/NasCtorIntended.lean), followed by ` #key,…` naming the elements that differ.

    scalar arguments are decimal; byte strings hex (`-` empty, `nil` = nil slice / nil pointer); IE structs `Iei.Len.hex`. -/

def u8Arg (s : String) : Option UInt8 := s.toNat?.bind fun n => if n < 256 then some (UInt8.ofNat n) else none

def optBytes (s : String) : Option (Option Bytes) := if s == "nil" then some none else (ofHex? s).map some

def optVal (s : String) : Option (Option Val) := parseTok s

/-- names of the wire elements of the imperative part (paired half octets are joined with `+`) -/
def mandNames (t : Table) : List String :=
  let rec go : List Spec.Ts24501.MRow → List String
    | ⟨a, .half⟩ :: ⟨b, .half⟩ :: rest => (a ++ "+" ++ b) :: go rest
    | ⟨a, _⟩ :: rest => a :: go rest
    | [] => []
  go (Spec.Ts24501.headerRows t.gsm t.msgType.isSome ++ t.mand)

/-- labels of the elements in which `got` differs from `exp`; `inner` = table of the message inside the payload container -/
partial def diffLabels (t : Table) (exp got : SMsg) (inner : Option (Table × (Nat → SMsg))) : List String :=
  let names := mandNames t
  let mand := (List.range (max exp.mand.length got.mand.length)).flatMap fun i =>
    if exp.mand[i]? == got.mand[i]? then [] else
    let n := names.getD i s!"mand#{i}"
    match inner, n == "Payload container", got.mand[i]?, t.wire with
    | some (it, iexp), true, some gb, _ =>
      match it.wire.bind fun w => Spec.Ts24501.parse w gb with
      | some g =>
        let pti := match g.mand[2]? with | some [p] => p.toNat | _ => 0
        (diffLabels it (iexp pti) g none).map ("payload." ++ ·)
      | none => ["payload"]
    | _, _, _, _ => [n.replace " " "-"]
  let ieis := (exp.opt.map (·.1) ++ got.opt.map (·.1)).eraseDups
  let opt := ieis.filterMap fun i =>
    if exp.opt.filter (·.1 == i) == got.opt.filter (·.1 == i) then none else some ("0x" ++ hex2 i)
  let order := if mand.isEmpty && opt.isEmpty && exp.opt.map (·.1) != got.opt.map (·.1) then ["order"] else []
  mand ++ opt ++ order

/-- value of an IE struct argument as the standard sees it, when the struct is well-formed for IEI `iei` -/
def ieArg (iei : Nat) (cap : Option Nat) (v : Option Val) : Option (Option Bytes) :=
  match v with
  | none => some none
  | some v =>
    match cap with
    | none => if v.iei == iei && v.len == v.data.length then some (some v.data) else none
    | some n => if v.iei == iei && v.len ≤ n && v.data.length == n then some (some (v.data.take v.len)) else none

structure CtorCase where
  layout : Layout
  table : String
  model : Res Msg
  /-- intended abstract message given the PTI found on the wire; `none` = arguments outside the constructor's contract -/
  intended : Option (Nat → SMsg)
  inner : Option (String × (Nat → SMsg)) := none

def mkCase (layout : Layout) (table : String) (model : Res Msg) (intended : Option (Nat → SMsg))
    (inner : Option (String × (Nat → SMsg)) := none) : CtorCase := ⟨layout, table, model, intended, inner⟩

def snssaiArg (sst sd : String) : Option (Option Ctor.Snssai × Option (Nat × Bytes)) :=
  if sst == "nil" then some (none, none) else
  match sst.toNat?, ofHex? sd with
  | some n, some b =>
    -- `uint8(sNssai.Sst)`; the standard's SST is one octet, the SD three: outside that the arguments have no intended value
    some (some ⟨UInt8.ofNat n, b⟩, if n < 256 && b.length == 3 then some (n, b) else none)
  | _, _ => none

def ctorCase (name : String) (a : List String) : Option CtorCase :=
  open Spec.Ts24501.Intended in
  match name, a with
  | "GetRegistrationRequest", [rt, mi, nssai, sec, cap, nmc, uds] =>
    match u8Arg rt, optVal mi, optVal nssai, optVal sec, optVal cap, optBytes nmc, optVal uds with
    | some rt, some (some mi), some nssai, some sec, some cap, some nmc, some uds =>
      let intended := match ieArg 0x2F none nssai, ieArg 0x2E none sec, ieArg 0x10 (some 13) cap, ieArg 0x40 none uds with
        | some n, some s, some c, some u =>
          if mi.len == mi.data.length && rt.toNat < 8 then
            some fun _ => registrationRequest rt.toNat mi.data n s c nmc u
          else none
        | _, _, _, _ => none
      some (mkCase Gen.Nas.layout_RegistrationRequest "RegistrationRequest"
             (Ctor.registrationRequest rt mi nssai sec cap nmc uds) intended)
    | _, _, _, _, _, _, _ => none
  | "GetPduSessionEstablishmentRequest", [psi] =>
    (u8Arg psi).map fun p => mkCase Gen.Nas.layout_PDUSessionEstablishmentRequest "PDUSessionEstablishmentRequest"
      (Ctor.pduSessionEstablishmentRequest p) (some (pduSessionEstablishmentRequest p.toNat))
  | "GetPduSessionModificationRequest", [psi] =>
    (u8Arg psi).map fun p => mkCase Gen.Nas.layout_PDUSessionModificationRequest "PDUSessionModificationRequest"
      (Ctor.pduSessionModificationRequest p) (some (pduSessionModificationRequest p.toNat))
  | "GetPduSessionReleaseRequest", [psi] =>
    (u8Arg psi).map fun p => mkCase Gen.Nas.layout_PDUSessionReleaseRequest "PDUSessionReleaseRequest"
      (Ctor.pduSessionReleaseRequest p) (some (pduSessionReleaseRequest p.toNat))
  | "GetPduSessionReleaseComplete", [psi] =>
    (u8Arg psi).map fun p => mkCase Gen.Nas.layout_PDUSessionReleaseComplete "PDUSessionReleaseComplete"
      (Ctor.pduSessionReleaseComplete p) (some (pduSessionReleaseComplete p.toNat))
  | "GetUlNasTransport_PduSessionReleaseRequest", [psi] =>
    (u8Arg psi).map fun p =>
      let inner := fun pti => pduSessionReleaseRequest p.toNat pti
      mkCase Gen.Nas.layout_ULNASTransport "ULNASTransport" (Ctor.ulReleaseRequest p)
        (some fun pti => ulNasTransport
          (((tableByName "PDUSessionReleaseRequest").bind (·.wire)).bind (Spec.Ts24501.encode · (inner pti)) |>.getD [])
          p.toNat none [] none)
        (some ("PDUSessionReleaseRequest", inner))
  | ul, [psi, rt, dnn, sst, sd] =>
    let which : Option (String × Layout × (UInt8 → UInt8 → Bytes → Option Ctor.Snssai → Res Msg) × (Nat → Nat → SMsg)) :=
      if ul == "GetUlNasTransport_PduSessionEstablishmentRequest" then
        some ("PDUSessionEstablishmentRequest", Gen.Nas.layout_PDUSessionEstablishmentRequest, Ctor.ulEstablishment, pduSessionEstablishmentRequest)
      else if ul == "GetUlNasTransport_PduSessionModificationRequest" then
        some ("PDUSessionModificationRequest", Gen.Nas.layout_PDUSessionModificationRequest, Ctor.ulModification, pduSessionModificationRequest)
      else if ul == "GetUlNasTransport_PduSessionReleaseComplete" then
        some ("PDUSessionReleaseComplete", Gen.Nas.layout_PDUSessionReleaseComplete, Ctor.ulReleaseComplete, pduSessionReleaseComplete)
      else none
    match which, u8Arg psi, u8Arg rt, ofHex? dnn, snssaiArg sst sd with
    | some (tn, _, model, innerI), some p, some rt, some dnn, some (sn, snI) =>
      let inner := fun pti => innerI p.toNat pti
      -- DNN: at most 100 octets (9.11.2.1A); request type: a defined 3-bit value
      let ok := dnn.length ≤ 99 && (sn.isNone || snI.isSome) && rt.toNat < 8
      some (mkCase Gen.Nas.layout_ULNASTransport "ULNASTransport" (model p rt dnn sn)
             (if ok then some fun pti => ulNasTransport
               (((tableByName tn).bind (·.wire)).bind (Spec.Ts24501.encode · (inner pti)) |>.getD [])
               p.toNat (some rt.toNat) dnn snI else none)
             (some (tn, inner)))
    | _, _, _, _, _ => none
  | "GetServiceRequest", [st] =>
    (u8Arg st).map fun s => mkCase Gen.Nas.layout_ServiceRequest "ServiceRequest"
      (Ctor.serviceRequest s) (if s.toNat < 16 then some fun _ => serviceRequest s.toNat else none)
  | "GetAuthenticationResponse", [param, eap] =>
    match ofHex? param, ofHex? eap with
    | some p, some e =>
      some (mkCase Gen.Nas.layout_AuthenticationResponse "AuthenticationResponse"
             (Ctor.authenticationResponse p e)
             (if p.length == 16 then some fun _ => authenticationResponse (some p) none
              else if p.isEmpty then some fun _ => authenticationResponse none (if e.isEmpty then none else some e)
              else none))
    | _, _ => none
  | "GetRegistrationComplete", [sor] =>
    (optBytes sor).map fun s => mkCase Gen.Nas.layout_RegistrationComplete "RegistrationComplete"
      (Ctor.registrationComplete s) (some fun _ => registrationComplete s)
  | "GetSecurityModeComplete", [nmc] =>
    (optBytes nmc).map fun s => mkCase Gen.Nas.layout_SecurityModeComplete "SecurityModeComplete"
      (Ctor.securityModeComplete s) (some fun _ => securityModeComplete s)
  | "GetDeregistrationRequest", [acc, sw, ksi, mi] =>
    match u8Arg acc, u8Arg sw, u8Arg ksi, optVal mi with
    | some acc, some sw, some ksi, some (some mi) =>
      some (mkCase Gen.Nas.layout_DeregistrationRequestUEOriginatingDeregistration
             "DeregistrationRequestUEOriginatingDeregistration"
             (Ctor.deregistrationRequest acc sw ksi mi)
             (if mi.len == mi.data.length && acc.toNat < 4 && sw.toNat < 2 && ksi.toNat < 8 then
               some fun _ => deregistrationRequest acc.toNat sw.toNat ksi.toNat mi.data else none))
    | _, _, _, _ => none
  | _, _ => none

def nctor : Handler
  | name :: args =>
    match ctorCase name args with
    | none => badOp
    | some c =>
      let bytes := Ctor.encodeWith c.layout c.model
      let spec : String :=
        match bytes, c.intended, (tableByName c.table), (tableByName c.table).bind (·.wire) with
        | .ok bs, some intended, some t, some w =>
          let got := Spec.Ts24501.parse w bs
          -- the PTI found on the wire: of the message itself (5GSM) or of the message in the payload container
          let pti : Nat := match got with
            | some g =>
              if t.gsm then (match g.mand[2]? with | some [p] => p.toNat | _ => 0)
              else match c.inner, g.mand[4]? with
                | some (tn, _), some pb =>
                  (match ((tableByName tn).bind (·.wire)).bind fun iw => Spec.Ts24501.parse iw pb with
                    | some ig => (match ig.mand[2]? with | some [p] => p.toNat | _ => 0)
                    | none => 0)
                | _, _ => 0
            | none => 0
          let exp := intended pti
          match Spec.Ts24501.encode w exp with
          | none => "undef"
          | some eb =>
            if eb == bs then "ok " ++ toHex eb else
            let innerT := c.inner.bind fun (tn, f) => (tableByName tn).map fun it => (it, f)
            let labels := match got with
              | some g => diffLabels t exp g innerT
              | none => ["unparseable"]
            let labels := if labels.isEmpty then ["bytes"] else labels
            -- narrower labels for two argument classes off the emulator's path, so that the known-finding keys stay specific
            let labels := labels.map fun l =>
              if l == "0x25" && (args.getD 2 "").length > 0 && ((ofHex? (args.getD 2 "")).getD []).contains 0x2E then "0x25.multi-label-dnn"
              else if name == "GetDeregistrationRequest" && l == "De-registration-type+ngKSI" &&
                      ((args.getD 2 "").toNat?.getD 0) % 2 == 1 then l ++ ".tsc-from-odd-ksi"
              else l
            "ok " ++ toHex eb ++ " #" ++ ",".intercalate (labels.map fun l => s!"nas-ctor:{name}:{l}")
        | _, _, _, _ => "undef"
      (resStr toHex bytes, spec)
  | _ => badOp

def nasCtorHandlers : List (String × Handler) := [("nctor", nctor)]

end Driver
