import Driver.Util
import Driver.SecAlg
open Driver

/-- op name → handler. One line per op; each domain lives in its own `Driver/<Domain>.lean`. -/
def handlers : List (String × Handler) := [
  ("nasenc", secAlg false),
  ("nasmac", secAlg true)
]

def step (line : String) : String :=
  match (line.trimAscii.toString.splitOn " ").filter (· ≠ "") with
  | op :: args =>
    match handlers.lookup op with
    | some h => let (m, s) := h args; m ++ "\t" ++ s
    | none => "bad-op\tbad-op"
  | [] => "bad-op\tbad-op"

partial def loop (h : IO.FS.Stream) (out : IO.FS.Stream) : IO Unit := do
  let line ← h.getLine
  if line.isEmpty then return ()
  out.putStrLn (step line)
  loop h out

def main : IO Unit := do
  let out ← IO.getStdout
  loop (← IO.getStdin) out
  out.flush
