import Driver.Util
import Driver.SecAlg
import Driver.Aper
import Driver.AperSyn
import Driver.NasCodec
import Driver.NasCtor
import Driver.SecHist
import Driver.Milenage
import Driver.Aka
import Driver.Extract
import Driver.Suci
import Driver.Ue
import Driver.Conv
import Driver.Config
import Driver.FailStop
import Driver.Builders
import Driver.Conc
import Driver.Convo
open Driver

/-- op name → handler. Each domain lives in its own `Driver/<Domain>.lean` and exports `<domain>Handlers`;
    add one import above and one `++` here. -/
def handlers : List (String × Handler) :=
  secAlgHandlers ++ aperHandlers ++ aperSynHandlers ++ secHistHandlers ++ milenageHandlers ++ akaHandlers ++ nasCodecHandlers ++ extractHandlers ++ configHandlers ++ nasCtorHandlers
    ++ suciHandlers ++ ueHandlers ++ convHandlers ++ failStopHandlers ++ buildersHandlers ++ concHandlers ++ convoHandlers

def step (line : String) : String :=
  match (line.trimAscii.toString.splitOn " ").filter (· ≠ "") with
  | op :: args =>
    match handlers.lookup op with
    | some h => let (m, s) := h args; m ++ "\t" ++ s
    | none => "bad-op\tbad-op"
  | [] => "bad-op\tbad-op"

partial def loop (h : IO.FS.Stream) (out : IO.FS.Stream) : IO Unit := do
  let line ← h.getLine
  if line.isEmpty then return ()
  out.putStrLn (step line)
  loop h out

def main : IO Unit := do
  let out ← IO.getStdout
  loop (← IO.getStdin) out
  out.flush
