import Driver.Util
import Stgutg.Model.Config
import Stgutg.Spec.ConfigWiring
namespace Driver
open Stgutg

/-! Domain `config` (C18). Op formats: see harness/cmd/corr/config.go. -/

namespace Config

/-- `key=hex(yaml text)=value meant` -/
def parseTok (s : String) : Option (String × String) :=
  match s.splitOn "=" with
  | [k, _, v] => some (k, v)
  | _ => none

def zeroOf (kind : String) : String := if kind = "string" then "-" else "0"

def report (entries : List (String × String)) (toks : List (String × String)) : String :=
  let parts := entries.map fun (key, kind) =>
    -- a key written twice (site overrides appended to the stock file): the LAST occurrence is the value
    key ++ "=" ++ (match toks.reverse.lookup key with | some v => v | none => zeroOf kind)
  "ok " ++ ";".intercalate (parts.mergeSort (fun a b => !(b < a)))

/-- model: a value written under a key arrives in the field whose yaml tag is that key (Gen.Wiring.fields);
    specification: in the field documented under that key (Spec.ConfigWiring.documented) -/
def conf : Handler := fun args =>
  -- `#pad=<n>` tokens make the harness write n octets of YAML comments at that point of the file: no effect on the values
  match (args.filter fun a => !a.startsWith "#pad=").mapM parseTok with
  | some toks =>
    (report (Gen.Wiring.fields.map fun f => (f.1, f.2.2)) toks, report Spec.ConfigWiring.documented toks)
  | none => badOp

def dockey : Handler
  | [k] =>
    let m := if (Gen.Wiring.fields.map (·.1)).contains k then "ok 1" else "ok 0"
    let s := if Spec.ConfigWiring.keys.contains k || Gen.Wiring.readmeKeys.contains k then "ok 1" else "undef"
    (m, s)
  | _ => badOp

def getmode : Handler
  | n :: rest =>
    match natArg n with
    | some n =>
      if rest.length < n then badOp else
      let args := rest.take n
      let osArgs := rest.drop n
      let m := match Model.Config.getMode args osArgs with
        | .ok v => "ok " ++ toString v
        | .error e => e.tag
      (m, if args = osArgs then "ok " ++ toString (Spec.ConfigWiring.modeOf args) else "undef")
    | none => badOp
  | _ => badOp

end Config

def configHandlers : List (String × Handler) := [
  ("conf", Config.conf),
  ("dockey", Config.dockey),
  ("getmode", Config.getmode)
]

end Driver
