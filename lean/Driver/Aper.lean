import Driver.Util
import Stgutg.Model.AperDec
import Stgutg.Gen.NgapSchema
import Stgutg.Spec.X691
import Stgutg.Spec.Ts38413Leaf
import Stgutg.Spec.Ts38413Schema
namespace Driver
open Stgutg Stgutg.Aper

/-! value tokens (see harness/cmd/corr/aperval.go) -/

partial def valToks : Val → List String
  | .int v => ["i" ++ toString v]
  | .enum v => ["e" ++ toString v]
  | .bits b n => ["b" ++ toString n ++ ":" ++ toHex b]
  | .octs b => ["o" ++ toHex b]
  | .str b => ["s" ++ toHex b]
  | .bool b => [if b then "t" else "f"]
  | .oid b => ["d" ++ toHex b]
  | .nil => ["n"]
  | .ptr v => "p" :: valToks v
  | .struct fs => ["("] ++ fs.flatMap valToks ++ [")"]
  | .slice l => ["["] ++ l.flatMap valToks ++ ["]"]

def valText (v : Val) : String := " ".intercalate (valToks v)

def dropFirst (s : String) : String := String.ofList (s.toList.drop 1)

/-- a hex string, or `<hex>*<n>`: the octets repeated n times (long strings in corpus files; aperval.go `unhex`) -/
def ofHexRep? (s : String) : Option Bytes :=
  match s.splitOn "*" with
  | [h] => ofHex? h
  | [h, n] =>
    match ofHex? h, n.toNat? with
    | some b, some k => if k ≤ 1048576 then some ((List.replicate k b).flatten) else none
    | _, _ => none
  | _ => none

mutual
partial def parseVal : List String → Option (Val × List String)
  | [] => none
  | t :: rest =>
    if t = "n" then some (.nil, rest)
    else if t = "t" then some (.bool true, rest)
    else if t = "f" then some (.bool false, rest)
    else if t = "p" then
      match parseVal rest with
      | some (v, r) => some (.ptr v, r)
      | none => none
    else if t = "(" then
      match parseList ")" rest [] with
      | some (vs, r) => some (.struct vs, r)
      | none => none
    else if t = "[" then
      match parseList "]" rest [] with
      | some (vs, r) => some (.slice vs, r)
      | none => none
    else
      let body := dropFirst t
      match t.toList.head? with
      | some 'i' => body.toInt?.map fun n => (.int n, rest)
      | some 'e' => body.toNat?.map fun n => (.enum n, rest)
      | some 'o' => (ofHexRep? body).map fun b => (.octs b, rest)
      | some 's' => (ofHexRep? body).map fun b => (.str b, rest)
      | some 'd' => (ofHexRep? body).map fun b => (.oid b, rest)
      | some 'b' =>
        match body.splitOn ":" with
        | [n, h] =>
          match n.toNat?, ofHexRep? h with
          | some n, some b => some (.bits b n, rest)
          | _, _ => none
        | _ => none
      | _ => none
partial def parseList (close : String) : List String → List Val → Option (List Val × List String)
  | [], _ => none
  | t :: rest, acc =>
    if t = close then some (acc.reverse, rest)
    else
      match parseVal (t :: rest) with
      | some (v, r) => parseList close r (v :: acc)
      | none => none
end

/-- `aper.parseFieldParameters` on a top-level parameter string (`-` = empty) -/
def parseParams (s : String) : Params :=
  if s = "-" then {} else
  (s.splitOn ",").foldl (fun (p : Params) part =>
    if part = "optional" then { p with optional := true }
    else if part = "sizeExt" then { p with sizeExt := true }
    else if part = "valueExt" then { p with valueExt := true }
    else if part = "openType" then { p with openType := true }
    else
      match part.splitOn ":" with
      | [k, v] =>
        match v.toInt? with
        | some i =>
          if k = "sizeLB" then { p with sizeLB := some i }
          else if k = "sizeUB" then { p with sizeUB := some i }
          else if k = "valueLB" then { p with valueLB := some i }
          else if k = "valueUB" then { p with valueUB := some i }
          else if k = "referenceFieldValue" then { p with refValue := some i }
          else p
        | none => if k = "referenceFieldName" then { p with refField := v } else p
      | _ => p) {}

def schema : Env := Gen.Ngap.schema
def fuel : Nat := 8 * (Gen.Ngap.schema.length + 1) + 1   -- the fuel of Props.C14 (schema-determined)

def typeId (name : String) : Option Nat := schema.findIdx? (fun sd => sd.name == name)

def resVal : Res Val → String
  | .ok v => "ok " ++ valText v
  | .error e => e.tag

/-- values inside the scope of the oracle: strings and open types of any length (fragmented per X.691 11.9.3.8 from 16K
    items on); a SEQUENCE OF of 16384 elements or more is outside (the specification does not fragment counts); a Go BitString
    whose `Bytes` has FEWER than ⌈BitLength/8⌉ octets is not a BIT STRING value at all (C03 speaks of values outside their
    CONSTRAINTS; what the library does with an inconsistent representation — it traps — is compared with the model only).
    MORE octets than needed is how a caller passes a buffer (a 4-octet gnb_id with a bit length of 24): the value is the first
    BitLength bits -/
partial def inScope : Val → Bool
  | .ptr v => inScope v
  | .struct fs => fs.all inScope
  | .slice l => l.length < 16384 && l.all inScope
  | .bits b n => b.length ≥ (n + 7) / 8
  | _ => true

/-- the schema the oracle encodes under: the frozen TS 38.413 table (Spec/Ts38413Schema.lean), with the constraints of the
    simple types tabled by hand from clause 9.4.5 — NOT the schema regenerated from the struct tags, so that an edit of a tag
    or of the component order in ngapType/*.go shows as implementation ≠ specification -/
def specSchema : Env := Spec.Ts38413.patchSchema Spec.Ts38413Schema.schema
def specFuel : Nat := 8 * (Spec.Ts38413Schema.schema.length + 1) + 1

/-- a type of the regenerated schema in the TS 38.413 table: the type of the same name, else (renamed) of the same index -/
def specTypeId (id : Nat) : Nat :=
  match schema[id]? with
  | some sd =>
    match Spec.Ts38413Schema.schema.findIdx? (fun g => g.name == sd.name) with
    | some k => k
    | none => id
  | none => id

/-- The harness prints a Go struct value component by component in the order of the Go struct; what the value DENOTES is
    given by the component names. `toSpecVal` re-arranges a value of the regenerated schema into the component order of the
    TS 38.413 table by name (a CHOICE's `Present` index is re-mapped the same way); types whose component names do not all
    have a counterpart (a renamed field) keep their order. So two components swapped in ngapType/*.go show up as a
    different encoding, exactly as they would on the wire for a caller that sets the fields by name. -/
partial def toSpecVal (ty : Ty) (v : Val) : Val :=
  match ty, v with
  | .ptr t, .ptr x => .ptr (toSpecVal t x)
  | .slice t, .slice xs => .slice (xs.map (toSpecVal t))
  | .struct id, .struct fs =>
    match schema[id]? with
    | none => v
    | some sd =>
      let named : List (String × Val) := (sd.fields.zip fs).map fun (f, x) => (f.name, toSpecVal f.ty x)
      let keep : Val := .struct (named.map (·.2))
      match Spec.Ts38413Schema.schema[specTypeId id]? with
      | none => keep
      | some g =>
        if g.fields.length == named.length && g.fields.all (fun gf => named.any (fun n => n.1 == gf.name)) then
          let vals : List Val := g.fields.map fun gf => match named.lookup gf.name with | some x => x | none => Val.nil
          -- CHOICE: Present holds a position
          match sd.fields, vals with
          | f0 :: _, Val.int p :: rest =>
            if f0.name == "Present" then
              match sd.fields[p.toNat]? with
              | some fp =>
                match g.fields.findIdx? (fun gf => gf.name == fp.name) with
                | some k => if p > 0 then .struct (.int k :: rest) else .struct vals
                | none => .struct vals
              | none => .struct vals
            else .struct vals
          | _, _ => .struct vals
        else keep
  | _, _ => v

/-- the BIT STRING a Go `BitString` denotes: its first `BitLength` bits (a caller's buffer may be longer than the string) -/
partial def trimBits : Val → Val
  | .ptr v => .ptr (trimBits v)
  | .struct fs => .struct (fs.map trimBits)
  | .slice l => .slice (l.map trimBits)
  | .bits b n => .bits (b.take ((n + 7) / 8)) n
  | v => v

/-- spec column for an encode op: the X.691 encoding, `err` when the value is outside its constraints -/
def specEnc (id : Nat) (p : Params) (v0 : Val) : String :=
  let v := trimBits (toSpecVal (.struct id) v0)
  if !inScope v then "undef" else
  match Spec.X691.encodePdu specSchema specFuel (.struct (specTypeId id)) p v with
  | some b => "ok " ++ toHex b
  | none => "err"

def aperEnc : Handler
  | ty :: ps :: toks =>
    match typeId ty, parseVal toks with
    | some id, some (v, []) => (resHex (marshal schema fuel (.struct id) (parseParams ps) v), specEnc id (parseParams ps) v)
    | _, _ => badOp
  | _ => badOp

def ngapEnc : Handler := fun toks =>
  match parseVal toks with
  | some (v, []) => (resHex (marshal schema fuel (.struct Gen.Ngap.pduId) Gen.Ngap.encoderParams v), specEnc Gen.Ngap.pduId Gen.Ngap.encoderParams v)
  | _ => badOp

def aperDec : Handler
  | [ty, ps, hex] =>
    match typeId ty, hexArg hex with
    | some id, some b => (resVal (unmarshal schema fuel (.struct id) (parseParams ps) b), "n/a")
    | _, _ => badOp
  | _ => badOp

def ngapDec : Handler
  | [hex] =>
    match hexArg hex with
    | some b => (resVal (unmarshal schema fuel (.struct Gen.Ngap.pduId) Gen.Ngap.decoderParams b), "n/a")
    | none => badOp
  | _ => badOp

/-- encode, decode, compare with the original -/
def aperRt : Handler
  | ty :: ps :: toks =>
    match typeId ty, parseVal toks with
    | some id, some (v, []) =>
      let p := parseParams ps
      match marshal schema fuel (.struct id) p v with
      | .error e => (e.tag, "n/a")
      | .ok b =>
        match unmarshal schema fuel (.struct id) p b with
        | .error .error => ("decerr " ++ toHex b, "n/a")
        | .error e => (e.tag, "n/a")
        | .ok v' =>
          let got := valText v'
          let want := " ".intercalate toks
          if got = want then ("ok " ++ toHex b ++ " same", "n/a") else ("ok " ++ toHex b ++ " diff " ++ got, "n/a")
    | _, _ => badOp
  | _ => badOp

/-- decode, re-encode, compare the octets -/
def aperRe : Handler
  | [ty, ps, hex] =>
    match typeId ty, hexArg hex with
    | some id, some b =>
      let p := parseParams ps
      match unmarshal schema fuel (.struct id) p b with
      | .error e => (e.tag, "n/a")
      | .ok v =>
        match marshal schema fuel (.struct id) p v with
        | .error .error => ("encerr", "n/a")
        | .error e => (e.tag, "n/a")
        | .ok b2 => if b2 = b then ("ok same", "n/a") else ("ok diff " ++ toHex b2, "n/a")
    | _, _ => badOp
  | _ => badOp

def aperHandlers : List (String × Handler) := [
  ("aperenc", aperEnc), ("ngapenc", ngapEnc), ("aperdec", aperDec), ("ngapdec", ngapDec),
  ("aperrt", aperRt), ("aperre", aperRe)
]

end Driver
