import Driver.Util
import Stgutg.Model.FailStop
import Stgutg.Gen.Script
import Stgutg.Spec.FailStop
namespace Driver
open Stgutg Stgutg.Model.FailStop

/-! `fsrun <ue_number> <r> <p> <s> <rel> <d> <kind> <k> <seed>` — one process-level run of the emulator against the
    scripted peer (domain `failstop`, C19). Model column: the outcome `Model.FailStop.run` predicts from the GENERATED
    script, printed in the peer's canonical form. Spec column: `demand` when the property demands fail-stop for this
    fault, `undef` when the fault is outside the property (the ignored read, a decodable wrong message, a fault index
    beyond the conversation, a close after the last uplink message), `n/a` for the fault-free run. -/

def intArg (s : String) : Option Int :=
  if s.startsWith "-" then (s.drop 1).toNat?.map (fun n => -(Int.ofNat n)) else s.toNat?.map Int.ofNat

def ngapTok : String → String
  | "GetNGSetupRequest" => "NGS"
  | "GetInitialUEMessage" => "IUE"
  | "GetUplinkNASTransport" => "UNT"
  | "GetInitialContextSetupResponse" => "ICS"
  | "GetInitialContextSetupResponseForServiceRequest" => "ICS"
  | "GetPDUSessionResourceSetupResponse" => "PSS"
  | "GetPDUSessionResourceReleaseResponse" => "PSR"
  | "GetUEContextReleaseComplete" => "UCR"
  | s => "?" ++ s

def nasTok : String → String
  | "" => ""
  | "GetRegistrationRequest" => "/RR"
  | "GetAuthenticationResponse" => "/AR"
  | "GetSecurityModeComplete" => "/SMC"
  | "GetRegistrationComplete" => "/RC"
  | "GetUlNasTransport_PduSessionEstablishmentRequest" => "/ER"
  | "GetServiceRequest" => "/SR"
  | "GetUlNasTransport_PduSessionReleaseRequest" => "/RQ"
  | "GetUlNasTransport_PduSessionReleaseComplete" => "/RX"
  | "GetDeregistrationRequest" => "/DR"
  | s => "/?" ++ s

def underscores (s : String) : String := String.ofList (s.toList.map (fun c => if c = ' ' then '_' else c))

def canonical (o : St) (kind : String) (faultAt : Option Nat) : String :=
  let ex := match o.exit with
    | some e => toString e
    | none => "hang"
  let bucket := if o.exit.isSome then "t<5s" else "t>=5s"
  let ban := if o.printed.contains (.line banner) then "1" else "0"
  let err := match o.printed.filterMap (fun | .error m => some m | _ => none) with
    | m :: _ => underscores m
    | [] => "-"
  let tests := (o.printed.filter (fun | .line t => t.startsWith ">> [" | _ => false)).length
  -- closeul: whether the program's next write beats the peer's close decides which ManageError text and how many
  -- test headers are printed; not compared
  let testsS := if kind = "closeul" then "*" else toString tests
  let err := if kind = "closeul" then "*" else err
  let after := match faultAt with
    | some k => (o.ul.filter (fun (u : String × String × Nat) => u.2.2 > k)).length
    | none => 0
  let seq := if o.ul.isEmpty then "-" else ",".intercalate (o.ul.map (fun (u : String × String × Nat) => ngapTok u.1 ++ nasTok u.2.1))
  s!"exit={ex} {bucket} banner={ban} err={err} tests={testsS} dl={o.dl} ul={o.ul.length} after_fault_ul={after} seq={seq}"

def fsrun : Handler
  | [_, r, p, s, rel, d, kind, k, _] =>
    match intArg r, intArg p, intArg s, intArg rel, intArg d, intArg k with
    | some r, some p, some s, some rel, some d, some k =>
      let c : Counts := ⟨r, p, s, rel, d⟩
      let ops := flat Gen.Script.script c
      let ks := kinds ops
      let total := ks.length
      let kN := k.toNat
      let oks (n : Nat) := List.replicate n Reply.ok
      let one (x : Reply) : List Reply := if kN < total then oks kN ++ [x] ++ oks (total - kN - 1) else oks total
      let inConv := decide (0 ≤ k) && decide (kN < total)
      let sc : Spec.FailStop.Counts := ⟨r, p, s, rel, d⟩
      let dem (b : Bool) : String := if decide (0 ≤ k) && b then "demand" else "undef"
      match kind with
      | "none" => (canonical (run Gen.Script.script c (oks total)) kind none, "n/a")
      | "close" =>
        (canonical (run Gen.Script.script c (oks kN ++ [.closed])) kind none, dem (Spec.FailStop.closeInScope sc kN))
      | "garbage" | "trunc" | "biggarbage" | "count" | "shrink" =>
        (canonical (run Gen.Script.script c (one .garbage)) kind (if inConv then some kN else none),
         dem (Spec.FailStop.garbageInScope sc kN))
      | "other" =>
        (canonical (run Gen.Script.script c (one .other)) kind (if inConv then some kN else none), "undef")
      | "silent" =>
        -- outside the fault model: the peer stops answering and does not close; the program waits for ever
        (canonical (run Gen.Script.script c (if kN < total then oks kN else oks total)) kind none, "undef")
      | "closeul" =>
        -- the peer closes right after uplink message k: it accepts k+1 messages
        (canonical (run Gen.Script.script c (oks total) (some (kN + 1))) kind none,
         dem (Spec.FailStop.closeAfterUplinkInScope sc kN))
      | _ => badOp
    | _, _, _, _, _, _ => badOp
  | _ => badOp

def failStopHandlers : List (String × Handler) := [("fsrun", fsrun)]

end Driver
