import Driver.Util
import Stgutg.Model.Emulator
import Stgutg.Model.NetExt
import Stgutg.Crypto.Prims
import Stgutg.Spec.Amf
namespace Driver
open Stgutg Stgutg.Model.Emulator

/-!
  Domains `convo-reg` (C01) and `convo-life` (C02), see harness/cmd/corr/convo.go.

    convo <prop> <mode> <imsi> <mcc> <mnc> <k> <opc> <op> <gnbid> <bitlen> <name> <sst> <sd> <gtp> <r> <p> <s> <rel> <d>
          <abba> <choices> <dls> <xul> <xrep> <xexit>

    model column: `exit=… banner=… ul=… rep=…` of Model.Emulator.emulate on the configuration and the downlink messages,
                  followed by ` | ` and the reference AMF's verdict on the MODEL's transcript
    spec column : the reference AMF's verdict (Spec/Amf.lean) on the IMPLEMENTATION's transcript carried by the op line
                  (`xul`, `xrep`, `xexit`): `accept` or `refuse <first failing clause>`
-/

namespace Convo

def cE : Model.Convert.Ext := Model.NetExt.goExt
def cP : Prims := Crypto.prims

def intArg (s : String) : Option Int := s.toInt?

def hexList (s : String) : Option (List Bytes) :=
  if s = "-" then some [] else (s.splitOn ",").mapM ofHex?

def showList (l : List Bytes) : String :=
  if l.isEmpty then "-" else ",".intercalate (l.map fun b => if b.isEmpty then "" else toHex b)

def parseCfg : List String → Option Cfg
  | [imsi, mcc, mnc, k, opc, op, gnbid, bitlen, name, sst, sd, gtp, r, p, s, rel, d] => do
    pure { imsi := ← hexArg imsi, mcc := ← hexArg mcc, mnc := ← hexArg mnc, k := ← hexArg k, opc := ← hexArg opc, op := ← hexArg op,
           gnbId := ← hexArg gnbid, bitlength := ← natArg bitlen, name := ← hexArg name, sst := ← intArg sst, sd := ← hexArg sd,
           gnbGtp := ← hexArg gtp, reg := ← intArg r, pdu := ← intArg p, svc := ← intArg s, rel := ← intArg rel, dereg := ← intArg d }
  | _ => none

def exitText : Outcome → String
  | .completed => "0" | .exit1 => "1" | .panic => "2" | .blocked => "hang" | .hang => "hang" | .unmodelled => "unmodelled"

def repText (mode : String) (rs : List Report) : String :=
  if mode = "bin" then "x"
  else if rs.isEmpty then "-"
  else ",".intercalate (rs.map fun r => toHex r.ip ++ ":" ++ toString r.teid ++ ":" ++ toHex r.upf)

def parseChoice (s : String) : Option Spec.Amf.Choice :=
  match s.splitOn ":" with
  | [rand, sqn, amf, ngksi, amfid, ueip, teid, upfip] => do
    pure { rand := ← ofHex? rand, sqn := ← ofHex? sqn, amf := ← ofHex? amf, ngKsi := ← ngksi.toNat?, amfUeNgapId := ← amfid.toNat?,
           ueIp := ← ofHex? ueip, teid := ← teid.toNat?, upfIp := ← ofHex? upfip }
  | _ => none

def parseChoices (s : String) : Option (List Spec.Amf.Choice) :=
  if s = "-" then some [] else (s.splitOn ",").mapM parseChoice

def parseReports (s : String) : Option (Option (List Spec.Amf.Reported)) :=
  if s = "x" then some none
  else if s = "-" then some (some [])
  else ((s.splitOn ",").mapM fun (t : String) =>
    match t.splitOn ":" with
    | [ip, teid, upf] => do pure ({ ip := ← ofHex? ip, teid := ← teid.toNat?, upf := ← ofHex? upf } : Spec.Amf.Reported)
    | _ => none).map some

def specCfg (c : Cfg) (abba : Bytes) : Spec.Amf.Cfg :=
  { imsi := c.imsi, mcc := c.mcc, mnc := c.mnc, k := c.k, opc := c.opc, op := c.op, gnbId := c.gnbId, bitLength := c.bitlength,
    name := c.name, abba := abba, reg := c.reg, pdu := c.pdu, svc := c.svc, rel := c.rel, dereg := c.dereg }

def verdictText : Spec.Amf.Verdict → String
  | .accept => "accept"
  | .refuse k => "refuse " ++ k

def convo : Handler
  | prop :: mode :: rest =>
    if rest.length != 23 || (prop != "C01" && prop != "C02") || (mode != "bin" && mode != "proc" && mode != "hist") then badOp else
    match parseCfg (rest.take 17), (rest.drop 17) with
    | some cfg, [abba, choices, dls, xul, xrep, xexit] =>
      match hexArg abba, parseChoices choices, hexList dls, hexList xul, parseReports xrep with
      | some abba, some chs, some dls, some xul, some xrep =>
        let t := if mode = "hist" then emulateHist cP cE cfg dls else emulate cP cE cfg dls
        let life := prop == "C02"
        let scfg := { specCfg cfg abba with hist := mode == "hist" }
        let mrep : Option (List Spec.Amf.Reported) :=
          if mode = "bin" then none else some (t.reports.map fun r => { ip := r.ip, teid := r.teid, upf := r.upf })
        let vModel := Spec.Amf.judge cP life scfg chs t.uls mrep (exitText t.outcome == "0")
        let vImpl := Spec.Amf.judge cP life scfg chs xul xrep (xexit == "0")
        (s!"exit={exitText t.outcome} banner={if t.outcome == .completed then 1 else 0} ul={showList t.uls} rep={repText mode t.reports}"
           ++ " | " ++ verdictText vModel,
         verdictText vImpl)
      | _, _, _, _, _ => badOp
    | _, _ => badOp
  | _ => badOp

end Convo

/-- `findlist <hex>`: `FindPDUSessionResourceSetupListSUReq` on the decoded PDU (harness/cmd/corr/findlist.go) -/
def findList : Handler
  | [hex] =>
    match hexArg hex with
    | none => badOp
    | some b =>
      match ngapDecode b with
      | .error e => (e.tag, "n/a")
      | .ok v =>
        match findSetupList v with
        | none => ("nil", "n/a")
        | some l =>
          match field 0 l with
          | some (.slice items) => (s!"ok {items.length}", "n/a")
          | _ => ("bad-op", "n/a")
  | _ => badOp

def convoHandlers : List (String × Handler) := [("convo", Convo.convo), ("findlist", findList)]

end Driver
