import Driver.Util
import Stgutg.Model.Milenage
import Stgutg.Spec.Ts35206
import Stgutg.Spec.MilenageUsim
import Stgutg.Crypto.Prims
import Stgutg.Crypto.MilenageKat
namespace Driver
open Stgutg
open Stgutg.Model.Milenage

namespace Mil
def P : Prims := Crypto.prims
def E : Spec.Ts35206.Cipher := Crypto.aes128

def oh : Option Bytes → String
  | some b => toHex b
  | none => "-"

def resStr {α} (f : α → String) : Res α → String
  | .ok a => "ok " ++ f a
  | .error e => e.tag

def flag (s : String) : Option Bool := if s = "1" then some true else if s = "0" then some false else none

/-- the specification is defined for 128-bit K/OPc/RAND, 48-bit SQN, 16-bit AMF -/
def dom (l : List (Bytes × Nat)) : Bool := l.all fun (b, n) => b.length == n

def f2345Str (o : F2345Out) : String :=
  oh o.res ++ " " ++ oh o.ck ++ " " ++ oh o.ik ++ " " ++ oh o.ak ++ " " ++ oh o.akstar

/-- `mil_f1 opc k rand sqn amf` → `ok <mac_a ‖ mac_s>` -/
def f1 : Handler
  | [opc, k, rand, sqn, amf] =>
    match hexArg opc, hexArg k, hexArg rand, hexArg sqn, hexArg amf with
    | some opc, some k, some rand, some sqn, some amf =>
      let m := resStr (fun (a, s) => toHex (a ++ s)) (F1 P opc k rand sqn amf)
      let s := if dom [(opc, 16), (k, 16), (rand, 16), (sqn, 6), (amf, 2)] then
          "ok " ++ toHex (Spec.Ts35206.f1 E k opc rand sqn amf ++ Spec.Ts35206.f1star E k opc rand sqn amf)
        else "undef"
      (m, s)
    | _, _, _, _, _ => badOp
  | _ => badOp

/-- `mil_f2345 opc k rand wRes wCk wIk wAk wAkstar` → `ok <res> <ck> <ik> <ak> <akstar>` (`-` for a nil buffer) -/
def f2345 : Handler
  | [opc, k, rand, a, b, c, d, e] =>
    match hexArg opc, hexArg k, hexArg rand, flag a, flag b, flag c, flag d, flag e with
    | some opc, some k, some rand, some a, some b, some c, some d, some e =>
      let m := resStr f2345Str (F2345 P opc k rand a b c d e)
      let s := if dom [(opc, 16), (k, 16), (rand, 16)] then
          "ok " ++ f2345Str {
            res := opt a (Spec.Ts35206.f2 E k opc rand), ck := opt b (Spec.Ts35206.f3 E k opc rand),
            ik := opt c (Spec.Ts35206.f4 E k opc rand), ak := opt d (Spec.Ts35206.f5 E k opc rand),
            akstar := opt e (Spec.Ts35206.f5star E k opc rand) }
        else "undef"
      (m, s)
    | _, _, _, _, _, _, _, _ => badOp
  | _ => badOp

/-- `mil_opc k op` → `ok <opc>` -/
def opcH : Handler
  | [k, op] =>
    match hexArg k, hexArg op with
    | some k, some op =>
      (resHex (GenerateOPC P k op),
       if dom [(k, 16), (op, 16)] then "ok " ++ toHex (Spec.Ts35206.opc E k op) else "undef")
    | _, _ => badOp
  | _ => badOp

def genStr (o : GenOut) : String :=
  toString o.resLen ++ " " ++ toHex o.autn ++ " " ++ toHex o.ik ++ " " ++ toHex o.ck ++ " " ++ toHex o.ak ++ " " ++ toHex o.res

/-- `mil_gen opc amf k sqn rand reslen` → `ok <reslen> <autn> <ik> <ck> <ak> <res>` -/
def gen : Handler
  | [opc, amf, k, sqn, rand, rl] =>
    match hexArg opc, hexArg amf, hexArg k, hexArg sqn, hexArg rand, natArg rl with
    | some opc, some amf, some k, some sqn, some rand, some rl =>
      let m := resStr genStr (MilenageGenerate P opc amf k sqn rand rl)
      let s := if dom [(opc, 16), (k, 16), (rand, 16), (sqn, 6), (amf, 2)] && rl ≥ 8 then
          "ok " ++ genStr ⟨8, Spec.Ts35206.autn E k opc rand sqn amf, Spec.Ts35206.f4 E k opc rand,
            Spec.Ts35206.f3 E k opc rand, Spec.Ts35206.f5 E k opc rand, Spec.Ts35206.f2 E k opc rand⟩
        else "undef"
      (m, s)
    | _, _, _, _, _, _ => badOp
  | _ => badOp

def checkStr (o : CheckOut) : String :=
  toString o.ret ++ " " ++ toString o.resLen ++ " " ++ toHex o.res ++ " " ++ toHex o.ck ++ " " ++ toHex o.ik ++ " " ++ toHex o.auts

/-- `mil_check opc k sqn rand autn` → `ok <ret> <reslen> <res> <ck> <ik> <auts>` (res_len is 0 on entry) -/
def check : Handler
  | [opc, k, sqn, rand, autn] =>
    match hexArg opc, hexArg k, hexArg sqn, hexArg rand, hexArg autn with
    | some opc, some k, some sqn, some rand, some autn =>
      let m := resStr checkStr (Milenage_check P opc k sqn rand autn 0)
      let s := if dom [(opc, 16), (k, 16), (rand, 16), (sqn, 6), (autn, 16)] then
          "ok " ++ checkStr (Spec.Ts35206.checkSpec E opc k sqn rand autn)
        else if dom [(opc, 16), (k, 16), (rand, 16), (sqn, 6)] && autn.length < 16 then
          -- an AUTN is 16 octets (TS 33.102 6.3.2: SQN xor AK, AMF, MAC-A); a shorter token does not carry the whole MAC-A,
          -- so accepting it cannot rest on "MAC-A is exactly f1": it must not be accepted, whatever else happens (error code,
          -- trap). Longer tokens (a valid AUTN followed by more octets) are outside the property: undef.
          "reject"
        else "undef"
      (m, s)
    | _, _, _, _, _ => badOp
  | _ => badOp

/-- `mil_auts opc k rand auts` → `ok <ret> <sqn>` -/
def autsH : Handler
  | [opc, k, rand, auts] =>
    match hexArg opc, hexArg k, hexArg rand, hexArg auts with
    | some opc, some k, some rand, some auts =>
      let m := resStr (fun (r, s) => toString r ++ " " ++ toHex s) (Milenage_auts P opc k rand auts)
      let s := if dom [(opc, 16), (k, 16), (rand, 16), (auts, 14)] then
          let (r, sq) := Spec.Ts35206.autsSpec E opc k rand auts
          "ok " ++ toString r ++ " " ++ toHex sq
        else "undef"
      (m, s)
    | _, _, _, _ => badOp
  | _ => badOp

/-- `mil_ts19 K RAND SQN AMF OP`: the TS 35.208 test set stored in TestGenAuthData →
    `ok <OPc> <f1> <f1*> <f2> <f3> <f4> <f5> <f5*>` (implementation column = the table's expected values) -/
def ts19 : Handler
  | [k, rand, sqn, amf, op] =>
    match hexArg k, hexArg rand, hexArg sqn, hexArg amf, hexArg op with
    | some k, some rand, some sqn, some amf, some op =>
      let m : Res String := do
        let opc ← GenerateOPC P k op
        let (a, s) ← F1 P opc k rand sqn amf
        let o ← F2345 P opc k rand true true true true true
        return toHex opc ++ " " ++ toHex a ++ " " ++ toHex s ++ " " ++ oh o.res ++ " " ++ oh o.ck ++ " " ++
          oh o.ik ++ " " ++ oh o.ak ++ " " ++ oh o.akstar
      let opc := Spec.Ts35206.opc E k op
      let s := "ok " ++ toHex opc ++ " " ++ toHex (Spec.Ts35206.f1 E k opc rand sqn amf) ++ " " ++
        toHex (Spec.Ts35206.f1star E k opc rand sqn amf) ++ " " ++ toHex (Spec.Ts35206.f2 E k opc rand) ++ " " ++
        toHex (Spec.Ts35206.f3 E k opc rand) ++ " " ++ toHex (Spec.Ts35206.f4 E k opc rand) ++ " " ++
        toHex (Spec.Ts35206.f5 E k opc rand) ++ " " ++ toHex (Spec.Ts35206.f5star E k opc rand)
      (resStr id m, s)
    | _, _, _, _, _ => badOp
  | _ => badOp

end Mil

def milenageHandlers : List (String × Handler) := [
  ("mil_f1", Mil.f1), ("mil_f2345", Mil.f2345), ("mil_opc", Mil.opcH), ("mil_gen", Mil.gen),
  ("mil_check", Mil.check), ("mil_auts", Mil.autsH), ("mil_ts19", Mil.ts19)
]

end Driver
